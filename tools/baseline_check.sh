#!/bin/bash
# Runs the repository's test suite (guard off: there is no hook code in /repo) and compares with
# the stable baseline list.  Prints the stable tests that did not pass.
cd /repo && GOFLAGS=-mod=mod go test -json -vet=off -count=1 -timeout 25m ./... > /tmp/baseline_run.json 2>/dev/null
python3 - <<'PY'
import json
base=json.load(open('/root/.vp/BASELINE.json'))
passed=set()
for l in open('/tmp/baseline_run.json'):
    try: e=json.loads(l)
    except Exception: continue
    if e.get('Action')=='pass' and e.get('Test'):
        passed.add(e['Package']+'::'+e['Test'])
missing=[t for t in base['stable_pass'] if t not in passed]
print('stable tests:',len(base['stable_pass']),'passed now:',len(base['stable_pass'])-len(missing))
for t in missing[:40]: print('NOT PASSED',t)
PY
rm -f /tmp/baseline_run.json
