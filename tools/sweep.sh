#!/bin/bash
# usage: tools/sweep.sh <tier> [ids...]  - builds vcheck in the current checkout of /verif and runs the given tier of each property,
# printing verdict and wall time.  Under `vp run --with-repo` it uses the snapshot of /repo ($VP_RUN_REPO) and this snapshot of /verif.
tier=${1:-thorough}; shift
ids=${@:-C01 C02 C03 C04 C05 C06 C08 C09 C10 C11 C12 C13 C14 C15 C16 C17 C18 C19}
here=$(cd "$(dirname "$0")/.." && pwd)
export VERIF_DIR=$here
[ -n "$VP_RUN_REPO" ] && export VERIF_REPO=$VP_RUN_REPO
(cd $here/engine && GOFLAGS=-mod=mod GOPROXY=off go build -o $here/bin/vcheck ./cmd/vcheck) || exit 2
for id in $ids; do
  t0=$(date +%s)
  timeout ${SWEEP_TIMEOUT:-7200} $here/bin/vcheck -p $id -tier $tier > $here/sweep_$id.log 2>&1
  rc=$?
  echo "$id tier=$tier exit=$rc wall=$(( $(date +%s) - t0 ))s :: $(grep -E '^(HELD|VIOLATION|INFRA)' $here/sweep_$id.log | head -3 | cut -c1-220 | tr '\n' '|')"
done
