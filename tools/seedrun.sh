#!/bin/bash
# usage: seedrun.sh <Cxx> [tier] [patchfile]  - applies the seeded patch to /repo, runs the property's check, reverts
id=$1; tier=${2:-quick}; patch=${3:-/verif/seeded/$id/patch.diff}
cd /repo && git status --short | grep -v '^??' | grep . && { echo "/repo not clean"; exit 2; }
git -C /repo apply $patch || { echo "patch does not apply"; exit 2; }
cd /verif && timeout 3000 bin/vcheck -p $id -tier $tier 2>&1 | grep -v "^    at" | cut -c1-260 | grep "VIOLATION\|harness=\|INFRA\|HELD\|KNOWN" | head -12
echo "exit=${PIPESTATUS[0]}"
git -C /repo checkout -- . 
