#!/usr/bin/env python3
"""Regenerates /verif/MANIFEST.json from tools/checks.json (one entry per claimed property)."""
import json, os
here = os.path.dirname(os.path.abspath(__file__))
root = os.path.dirname(here)
checks = json.load(open(os.path.join(here, "checks.json")))
props = [json.loads(l) for l in open(os.path.join(root, "properties.jsonl"))]
ids = [p["id"] for p in props]
out = {
    "version": 1,
    "setup_cmd": "cd /verif/engine && GOFLAGS=-mod=mod GOPROXY=off go build -o /verif/bin/vcheck ./cmd/vcheck",
    "hooks": {
        "guard": "verif",
        "enable": "none needed: harnesses, the verifrt shim and environment rewrites are injected with go/packages and `go test` overlays; /repo carries no hook code",
        "baseline_off_cmd": "cd /repo && go test -vet=off -count=1 -timeout 25m ./...",
        "source_commits": [],
        "add_only": True,
    },
    "engines": [{
        "name": "gosym",
        "path": "/verif/engine",
        "serves_properties": sorted(checks["claimed"].keys()),
        "kind_free_text": "bounded symbolic execution of the real Go code: go/ssa (rebuilt from /repo's working tree on every run) interpreted over SMT bit-vector/floating-point terms, path conditions and assertions decided by cvc5 (z3 as cross-check), counterexamples replayed against the natively compiled code",
    }],
    "checks": [],
    "notes": checks.get("notes", ""),
    "not_applicable": [],
}
for pid in ids:
    c = checks["claimed"].get(pid)
    if c is None:
        reason = checks["not_applicable"].get(pid, "not built yet (work in progress)")
        out["not_applicable"].append({"property_id": pid, "reason": reason})
        continue
    out["checks"].append({
        "property_id": pid,
        "quick_cmd": f"bin/vcheck -p {pid} -tier quick",
        "thorough_cmd": f"bin/vcheck -p {pid} -tier thorough",
        "evidence_file": f"/verif/evidence/{pid}.json",
        "replay_cmd_template": "bin/vcheck -replay {path}",
        "engine": "gosym",
        "level_claimed": {"category": "model_checking", "text": c["text"], "design_ref": c.get("design_ref", "DESIGN.md section 3, " + pid)},
        "level_note": c["note"],
        "technique": c.get("technique", "bounded symbolic execution of the real Go functions (go/ssa -> SMT-LIB2 bit-vectors, cvc5), counterexample replay against the compiled code"),
    })
json.dump(out, open(os.path.join(root, "MANIFEST.json"), "w"), indent=1)
print("claimed:", sorted(checks["claimed"].keys()))
