#!/bin/bash
# usage: tools/thorough_probe.sh [cap_seconds] - runs every harness's thorough tier alone, with a cap, and prints its wall time
cap=${1:-900}
cd /verif
python3 - <<'PY' > /tmp/thorough_list.txt
import json,glob
for f in sorted(glob.glob('/verif/harness/*/spec.json')):
    sp=json.load(open(f))
    for h in sp['harnesses']:
        tiers=h.get('tiers') or ['quick','thorough']
        if 'thorough' in tiers and 'thorough' in h.get('params',{}):
            print(sp['property'],h['name'])
PY
while read id name; do
  t0=$(date +%s)
  VERIF_REPO=/tmp/repo-snap timeout $cap /tmp/vcheck-probe -p $id -tier thorough -only $name > /tmp/probe_${id}_$name.log 2>&1
  rc=$?
  echo "$id $name exit=$rc wall=$(( $(date +%s) - t0 ))s :: $(grep -E '^(HELD|VIOLATION|INFRA)' /tmp/probe_${id}_$name.log | head -2 | cut -c1-160 | tr '\n' '|')"
done < /tmp/thorough_list.txt
