#!/bin/bash
# usage: seedconfirm.sh <Cxx>   - confirms a seeded change in its scratch worktree /tmp/seed-<id>
id=$1; pre=${SEEDPREFIX:-seed}; wt=/tmp/$pre-$id; out=/tmp/$pre-$id-out
export GOFLAGS=-mod=mod GOPROXY=off
cd $wt || exit 2
pkg=$(head -1 $out/demo_test.go | sed 's|// package dir: *||; s|[[:space:]]*$||')
echo "== $id pkg=$pkg"
git apply -R --check $out/patch.diff 2>/dev/null || { echo "patch not applied in worktree?"; }
go build ./... || { echo "BUILD FAILS"; exit 1; }
go test -count=1 -vet=off -run 'Seed' ./$pkg > $out/confirm_with.txt 2>&1; w=$?
git apply -R $out/patch.diff || { echo "cannot reverse patch"; exit 1; }
go test -count=1 -vet=off -run 'Seed' ./$pkg > $out/confirm_without.txt 2>&1; wo=$?
git apply $out/patch.diff
echo "demo with change: exit $w (want !=0); without: exit $wo (want 0)"
if [ "$2" = "full" ]; then
  go test -json -vet=off -count=1 -timeout 25m -skip 'Seed' ./... > /tmp/seed-$id-full.json 2>/dev/null
  python3 - $id <<'PY'
import json,sys
id=sys.argv[1]
base=json.load(open('/root/.vp/BASELINE.json'))
passed=set()
for l in open('/tmp/seed-%s-full.json'%id):
    try: e=json.loads(l)
    except Exception: continue
    if e.get('Action')=='pass' and e.get('Test'): passed.add(e['Package']+'::'+e['Test'])
missing=[t for t in base['stable_pass'] if t not in passed]
print('existing suite with the change: %d/%d stable tests pass'%(len(base['stable_pass'])-len(missing),len(base['stable_pass'])), missing[:5])
PY
  rm -f /tmp/seed-$id-full.json
fi
