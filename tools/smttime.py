#!/usr/bin/env python3
# usage: smttime.py <log.smt2> <solver cmd...>   - replays an incremental SMT log and prints the latency of each check-sat
import sys, subprocess, time
log = sys.argv[1]; cmd = sys.argv[2:]
p = subprocess.Popen(cmd, stdin=subprocess.PIPE, stdout=subprocess.PIPE, text=True, bufsize=1)
n = 0; tot = 0; slow = []
for line in open(log):
    p.stdin.write(line); 
    s = line.strip()
    if s.startswith("(check-sat") or s.startswith("(get-value") or s.startswith("(eval"):
        p.stdin.flush(); t0 = time.time(); ans = p.stdout.readline().strip(); dt = time.time() - t0
        if s.startswith("(check-sat"):
            n += 1; tot += dt
            if dt > 0.2: slow.append((n, round(dt, 2), ans))
        elif dt > 0.2: slow.append((n, "value", round(dt, 2)))
        if ans.startswith("(error"): print("ERR", n, ans)
print("queries", n, "total", round(tot, 1)); print(slow[:60])
