package term

// Eval computes the value of t under an assignment of its variables (by term ID); variables
// without an entry are 0.  ok=false if t contains an operation the evaluator does not cover
// (floating point).  memo must be a fresh or per-assignment map.
func Eval(t *Term, env map[int]uint64, memo map[int]uint64) (uint64, bool) {
	if v, ok := memo[t.ID]; ok {
		return v, true
	}
	var r uint64
	switch t.Op {
	case OpConst:
		if t.S.K == KFP {
			return 0, false
		}
		return t.Val, true
	case OpVar:
		r = env[t.ID]
		if t.S.K == KBV {
			r &= mask(t.S.W)
		} else {
			r &= 1
		}
		return r, true
	}
	if t.S.K == KFP {
		return 0, false
	}
	args := make([]uint64, len(t.Args))
	for i, a := range t.Args {
		if a.S.K == KFP {
			return 0, false
		}
		// short-circuit ite
		if t.Op == OpIte && i > 0 {
			continue
		}
		v, ok := Eval(a, env, memo)
		if !ok {
			return 0, false
		}
		args[i] = v
	}
	b2u := func(b bool) uint64 {
		if b {
			return 1
		}
		return 0
	}
	switch t.Op {
	case OpNot:
		r = 1 - args[0]
	case OpAnd:
		r = args[0] & args[1]
	case OpOr:
		r = args[0] | args[1]
	case OpEq:
		r = b2u(args[0] == args[1])
	case OpIte:
		var v uint64
		var ok bool
		if args[0] == 1 {
			v, ok = Eval(t.Args[1], env, memo)
		} else {
			v, ok = Eval(t.Args[2], env, memo)
		}
		if !ok {
			return 0, false
		}
		r = v
	case OpBvAdd, OpBvSub, OpBvMul, OpBvUDiv, OpBvURem, OpBvSDiv, OpBvSRem, OpBvAnd, OpBvOr, OpBvXor, OpBvShl, OpBvLshr, OpBvAshr:
		r = FoldBin(t.Op, args[0], args[1], t.S.W)
	case OpBvNot:
		r = ^args[0] & mask(t.S.W)
	case OpBvNeg:
		r = (-args[0]) & mask(t.S.W)
	case OpBvUlt:
		r = b2u(args[0] < args[1])
	case OpBvUle:
		r = b2u(args[0] <= args[1])
	case OpBvSlt:
		w := t.Args[0].S.W
		r = b2u(signed(args[0], w) < signed(args[1], w))
	case OpBvSle:
		w := t.Args[0].S.W
		r = b2u(signed(args[0], w) <= signed(args[1], w))
	case OpZext:
		r = args[0]
	case OpSext:
		r = uint64(signed(args[0], t.Args[0].S.W)) & mask(t.S.W)
	case OpExtract:
		r = (args[0] >> uint(t.Q)) & mask(t.P-t.Q+1)
	case OpConcat:
		r = (args[0]<<uint(t.Args[1].S.W) | args[1]) & mask(t.S.W)
	default:
		return 0, false
	}
	memo[t.ID] = r
	return r, true
}
