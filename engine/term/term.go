// Package term: hash-consed SMT terms with constant folding.
package term

import (
	"fmt"
	"math"
	"math/bits"
	"sort"
	"strings"
)

type Kind uint8

const (
	KBool Kind = iota
	KBV
	KFP // W = 32 or 64
)

type Sort struct {
	K Kind
	W int // bit width for BV
}

var Bool = Sort{K: KBool}

func BV(w int) Sort { return Sort{K: KBV, W: w} }

func FP(w int) Sort { return Sort{K: KFP, W: w} }

func (s Sort) SMT() string {
	if s.K == KBool {
		return "Bool"
	}
	if s.K == KFP {
		if s.W == 32 {
			return "(_ FloatingPoint 8 24)"
		}
		return "(_ FloatingPoint 11 53)"
	}
	return fmt.Sprintf("(_ BitVec %d)", s.W)
}

type Op uint8

const (
	OpConst Op = iota
	OpVar
	OpNot
	OpAnd
	OpOr
	OpEq
	OpIte
	OpBvAdd
	OpBvSub
	OpBvMul
	OpBvUDiv
	OpBvURem
	OpBvSDiv
	OpBvSRem
	OpBvAnd
	OpBvOr
	OpBvXor
	OpBvNot
	OpBvNeg
	OpBvShl
	OpBvLshr
	OpBvAshr
	OpBvUlt
	OpBvUle
	OpBvSlt
	OpBvSle
	OpZext    // P = extra bits
	OpSext    // P = extra bits
	OpExtract // P = hi, Q = lo
	OpConcat
	OpFpAdd
	OpFpSub
	OpFpMul
	OpFpDiv
	OpFpNeg
	OpFpLt
	OpFpLe
	OpFpEq
	OpFpIsNaN
	OpFpIsInf
	OpFpFromSBV // to S
	OpFpFromUBV
	OpFpToSBV // P = width
	OpFpToUBV
	OpFpFromBits
	OpFpToFp
	OpDistinct
)

var opName = map[Op]string{
	OpNot: "not", OpAnd: "and", OpOr: "or", OpEq: "=", OpIte: "ite",
	OpBvAdd: "bvadd", OpBvSub: "bvsub", OpBvMul: "bvmul", OpBvUDiv: "bvudiv", OpBvURem: "bvurem",
	OpBvSDiv: "bvsdiv", OpBvSRem: "bvsrem", OpBvAnd: "bvand", OpBvOr: "bvor", OpBvXor: "bvxor",
	OpBvNot: "bvnot", OpBvNeg: "bvneg", OpBvShl: "bvshl", OpBvLshr: "bvlshr", OpBvAshr: "bvashr",
	OpBvUlt: "bvult", OpBvUle: "bvule", OpBvSlt: "bvslt", OpBvSle: "bvsle", OpConcat: "concat",
}

type Term struct {
	ID   int
	Op   Op
	S    Sort
	Args []*Term
	Val  uint64 // constant value (bool: 0/1)
	Name string // var name
	P, Q int
	mb   int // number of low bits that can be non-zero (BV only); computed at creation
}

// MaxBits returns n such that the value of t (unsigned) is < 2^n.
func (t *Term) MaxBits() int { return t.mb }

func bitsOf(v uint64) int { return bits.Len64(v) }

func computeMB(t *Term) int {
	if t.S.K != KBV {
		return 0
	}
	w := t.S.W
	clamp := func(n int) int {
		if n > w {
			return w
		}
		if n < 0 {
			return 0
		}
		return n
	}
	switch t.Op {
	case OpConst:
		return bitsOf(t.Val)
	case OpZext:
		return t.Args[0].mb
	case OpExtract:
		if t.Q == 0 {
			return clamp(t.Args[0].mb)
		}
		return clamp(t.Args[0].mb - t.Q)
	case OpBvAnd:
		a, b := t.Args[0].mb, t.Args[1].mb
		if a < b {
			return a
		}
		return b
	case OpBvOr, OpBvXor:
		a, b := t.Args[0].mb, t.Args[1].mb
		if a > b {
			return a
		}
		return b
	case OpBvAdd:
		a, b := t.Args[0].mb, t.Args[1].mb
		if a < b {
			a = b
		}
		return clamp(a + 1)
	case OpBvShl:
		if t.Args[1].IsConst() && t.Args[1].Val < 64 {
			return clamp(t.Args[0].mb + int(t.Args[1].Val))
		}
	case OpBvLshr:
		if t.Args[1].IsConst() && t.Args[1].Val < 64 {
			return clamp(t.Args[0].mb - int(t.Args[1].Val))
		}
		return t.Args[0].mb
	case OpBvUDiv, OpBvURem:
		return t.Args[0].mb
	case OpIte:
		a, b := t.Args[1].mb, t.Args[2].mb
		if a > b {
			return a
		}
		return b
	case OpBvMul:
		return clamp(t.Args[0].mb + t.Args[1].mb)
	}
	return w
}

func (t *Term) IsConst() bool { return t.Op == OpConst }
func (t *Term) IsTrue() bool  { return t.Op == OpConst && t.S.K == KBool && t.Val == 1 }
func (t *Term) IsFalse() bool { return t.Op == OpConst && t.S.K == KBool && t.Val == 0 }

type Store struct {
	tab  map[termKey]*Term
	next int
	Vars []*Term
}

func NewStore() *Store { return &Store{tab: map[termKey]*Term{}} }

type termKey struct {
	op         Op
	k          Kind
	w          int
	val        uint64
	name       string
	p, q       int
	n          int
	a0, a1, a2 int
}

func (s *Store) intern(t *Term) *Term {
	if len(t.Args) > 3 {
		panic("term with more than 3 arguments")
	}
	key := termKey{op: t.Op, k: t.S.K, w: t.S.W, val: t.Val, name: t.Name, p: t.P, q: t.Q, n: len(t.Args), a0: -1, a1: -1, a2: -1}
	if len(t.Args) > 0 {
		key.a0 = t.Args[0].ID
	}
	if len(t.Args) > 1 {
		key.a1 = t.Args[1].ID
	}
	if len(t.Args) > 2 {
		key.a2 = t.Args[2].ID
	}
	if x, ok := s.tab[key]; ok {
		return x
	}
	t.ID = s.next
	s.next++
	t.mb = computeMB(t)
	s.tab[key] = t
	if t.Op == OpVar {
		s.Vars = append(s.Vars, t)
	}
	return t
}

func mask(w int) uint64 {
	if w >= 64 {
		return ^uint64(0)
	}
	return (uint64(1) << uint(w)) - 1
}

func (s *Store) Const(w int, v uint64) *Term {
	return s.intern(&Term{Op: OpConst, S: BV(w), Val: v & mask(w)})
}
func (s *Store) BoolC(b bool) *Term {
	v := uint64(0)
	if b {
		v = 1
	}
	return s.intern(&Term{Op: OpConst, S: Bool, Val: v})
}
func (s *Store) Var(name string, so Sort) *Term {
	return s.intern(&Term{Op: OpVar, S: so, Name: name})
}

func signed(v uint64, w int) int64 {
	if w >= 64 {
		return int64(v)
	}
	sh := uint(64 - w)
	return int64(v<<sh) >> sh
}

func (s *Store) Not(a *Term) *Term {
	if a.IsConst() {
		return s.BoolC(a.Val == 0)
	}
	if a.Op == OpNot {
		return a.Args[0]
	}
	return s.intern(&Term{Op: OpNot, S: Bool, Args: []*Term{a}})
}

func (s *Store) And(a, b *Term) *Term {
	if a.IsFalse() || b.IsFalse() {
		return s.BoolC(false)
	}
	if a.IsTrue() {
		return b
	}
	if b.IsTrue() {
		return a
	}
	if a == b {
		return a
	}
	if a.ID > b.ID {
		a, b = b, a
	}
	return s.intern(&Term{Op: OpAnd, S: Bool, Args: []*Term{a, b}})
}

func (s *Store) Or(a, b *Term) *Term {
	if a.IsTrue() || b.IsTrue() {
		return s.BoolC(true)
	}
	if a.IsFalse() {
		return b
	}
	if b.IsFalse() {
		return a
	}
	if a == b {
		return a
	}
	if a.ID > b.ID {
		a, b = b, a
	}
	return s.intern(&Term{Op: OpOr, S: Bool, Args: []*Term{a, b}})
}

func (s *Store) Eq(a, b *Term) *Term {
	if a == b {
		return s.BoolC(true)
	}
	if a.IsConst() && b.IsConst() {
		return s.BoolC(a.Val == b.Val)
	}
	if a.S.K == KBV {
		if a.IsConst() && b.mb < 64 && a.Val >= uint64(1)<<uint(b.mb) {
			return s.BoolC(false)
		}
		if b.IsConst() && a.mb < 64 && b.Val >= uint64(1)<<uint(a.mb) {
			return s.BoolC(false)
		}
	}
	if a.S.K == KBool {
		if a.IsTrue() {
			return b
		}
		if b.IsTrue() {
			return a
		}
		if a.IsFalse() {
			return s.Not(b)
		}
		if b.IsFalse() {
			return s.Not(a)
		}
	}
	if a.ID > b.ID {
		a, b = b, a
	}
	return s.intern(&Term{Op: OpEq, S: Bool, Args: []*Term{a, b}})
}

func (s *Store) Ite(c, a, b *Term) *Term {
	if c.IsTrue() {
		return a
	}
	if c.IsFalse() {
		return b
	}
	if a == b {
		return a
	}
	if a.S.K == KBool {
		if a.IsTrue() && b.IsFalse() {
			return c
		}
		if a.IsFalse() && b.IsTrue() {
			return s.Not(c)
		}
	}
	return s.intern(&Term{Op: OpIte, S: a.S, Args: []*Term{c, a, b}})
}

func (s *Store) bin(op Op, a, b *Term) *Term {
	w := a.S.W
	if a.S != b.S {
		panic(fmt.Sprintf("sort mismatch in %v: %v vs %v", opName[op], a.S, b.S))
	}
	if a.IsConst() && b.IsConst() {
		r := FoldBin(op, a.Val, b.Val, w)
		return s.Const(w, r)
	}
	// identities
	switch op {
	case OpBvAdd, OpBvOr, OpBvXor:
		if a.IsConst() && a.Val == 0 {
			return b
		}
		if b.IsConst() && b.Val == 0 {
			return a
		}
	case OpBvSub, OpBvShl, OpBvLshr, OpBvAshr:
		if b.IsConst() && b.Val == 0 {
			return a
		}
	case OpBvAnd:
		if (a.IsConst() && a.Val == 0) || (b.IsConst() && b.Val == 0) {
			return s.Const(w, 0)
		}
		if a.IsConst() && a.Val == mask(w) {
			return b
		}
		if b.IsConst() && b.Val == mask(w) {
			return a
		}
	case OpBvMul:
		if (a.IsConst() && a.Val == 0) || (b.IsConst() && b.Val == 0) {
			return s.Const(w, 0)
		}
		if a.IsConst() && a.Val == 1 {
			return b
		}
		if b.IsConst() && b.Val == 1 {
			return a
		}
	}
	switch op {
	case OpBvAdd, OpBvMul, OpBvAnd, OpBvOr, OpBvXor:
		if a.ID > b.ID {
			a, b = b, a
		}
	}
	return s.intern(&Term{Op: op, S: a.S, Args: []*Term{a, b}})
}

func (s *Store) Add(a, b *Term) *Term  { return s.bin(OpBvAdd, a, b) }
func (s *Store) Sub(a, b *Term) *Term  { return s.bin(OpBvSub, a, b) }
func (s *Store) Mul(a, b *Term) *Term  { return s.bin(OpBvMul, a, b) }
func (s *Store) UDiv(a, b *Term) *Term { return s.bin(OpBvUDiv, a, b) }
func (s *Store) URem(a, b *Term) *Term { return s.bin(OpBvURem, a, b) }
func (s *Store) SDiv(a, b *Term) *Term { return s.bin(OpBvSDiv, a, b) }
func (s *Store) SRem(a, b *Term) *Term { return s.bin(OpBvSRem, a, b) }
func (s *Store) BAnd(a, b *Term) *Term { return s.bin(OpBvAnd, a, b) }
func (s *Store) BOr(a, b *Term) *Term  { return s.bin(OpBvOr, a, b) }
func (s *Store) BXor(a, b *Term) *Term { return s.bin(OpBvXor, a, b) }
func (s *Store) Shl(a, b *Term) *Term  { return s.bin(OpBvShl, a, b) }
func (s *Store) Lshr(a, b *Term) *Term { return s.bin(OpBvLshr, a, b) }
func (s *Store) Ashr(a, b *Term) *Term { return s.bin(OpBvAshr, a, b) }

func (s *Store) BNot(a *Term) *Term {
	if a.IsConst() {
		return s.Const(a.S.W, ^a.Val)
	}
	return s.intern(&Term{Op: OpBvNot, S: a.S, Args: []*Term{a}})
}
func (s *Store) Neg(a *Term) *Term {
	if a.IsConst() {
		return s.Const(a.S.W, -a.Val)
	}
	return s.intern(&Term{Op: OpBvNeg, S: a.S, Args: []*Term{a}})
}

func (s *Store) cmp(op Op, a, b *Term) *Term {
	if a.S != b.S {
		panic(fmt.Sprintf("sort mismatch in cmp: %v vs %v", a.S, b.S))
	}
	w := a.S.W
	if a.IsConst() && b.IsConst() {
		var r bool
		switch op {
		case OpBvUlt:
			r = a.Val < b.Val
		case OpBvUle:
			r = a.Val <= b.Val
		case OpBvSlt:
			r = signed(a.Val, w) < signed(b.Val, w)
		case OpBvSle:
			r = signed(a.Val, w) <= signed(b.Val, w)
		}
		return s.BoolC(r)
	}
	if a == b {
		return s.BoolC(op == OpBvUle || op == OpBvSle)
	}
	// bound-based folding: x < 2^mb(x)
	if a.mb < w || b.mb < w {
		signedOK := a.mb < w && b.mb < w // both non-negative as signed
		if op == OpBvUlt || op == OpBvUle || signedOK {
			if b.IsConst() && a.mb < 64 {
				ub := uint64(1)<<uint(a.mb) - 1
				if ub < b.Val || (ub == b.Val && (op == OpBvUle || op == OpBvSle)) {
					return s.BoolC(true)
				}
			}
			if a.IsConst() && b.mb < 64 {
				ub := uint64(1)<<uint(b.mb) - 1
				if a.Val > ub || (a.Val == ub && (op == OpBvUlt || op == OpBvSlt)) {
					return s.BoolC(false)
				}
			}
			if a.IsConst() && a.Val == 0 && (op == OpBvUle || op == OpBvSle) {
				return s.BoolC(true)
			}
		}
	}
	return s.intern(&Term{Op: op, S: Bool, Args: []*Term{a, b}})
}
func (s *Store) Ult(a, b *Term) *Term { return s.cmp(OpBvUlt, a, b) }
func (s *Store) Ule(a, b *Term) *Term { return s.cmp(OpBvUle, a, b) }
func (s *Store) Slt(a, b *Term) *Term { return s.cmp(OpBvSlt, a, b) }
func (s *Store) Sle(a, b *Term) *Term { return s.cmp(OpBvSle, a, b) }

// Resize converts a to width w (zero- or sign-extend, or truncate).
func (s *Store) Resize(a *Term, w int, sign bool) *Term {
	if a.S.W == w {
		return a
	}
	if a.IsConst() {
		if w < a.S.W {
			return s.Const(w, a.Val)
		}
		if sign {
			return s.Const(w, uint64(signed(a.Val, a.S.W)))
		}
		return s.Const(w, a.Val)
	}
	if w < a.S.W {
		return s.intern(&Term{Op: OpExtract, S: BV(w), Args: []*Term{a}, P: w - 1, Q: 0})
	}
	if sign {
		return s.intern(&Term{Op: OpSext, S: BV(w), Args: []*Term{a}, P: w - a.S.W})
	}
	return s.intern(&Term{Op: OpZext, S: BV(w), Args: []*Term{a}, P: w - a.S.W})
}

// BoolToBV not needed; Ite does it.

var _ = bits.Len
var _ = sort.Ints

// SMT renders the term body (referring to sub-terms by name).
func (t *Term) Ref() string {
	switch t.Op {
	case OpConst:
		if t.S.K == KBool {
			if t.Val == 1 {
				return "true"
			}
			return "false"
		}
		if t.S.K == KFP {
			if t.S.W == 32 {
				return fmt.Sprintf("((_ to_fp 8 24) #x%08x)", t.Val)
			}
			return fmt.Sprintf("((_ to_fp 11 53) #x%016x)", t.Val)
		}
		if t.S.W%4 == 0 {
			return fmt.Sprintf("#x%0*x", t.S.W/4, t.Val)
		}
		return fmt.Sprintf("#b%0*b", t.S.W, t.Val)
	case OpVar:
		return t.Name
	}
	return fmt.Sprintf("t%d", t.ID)
}

func (t *Term) Body() string {
	var b strings.Builder
	switch t.Op {
	case OpZext:
		fmt.Fprintf(&b, "((_ zero_extend %d) %s)", t.P, t.Args[0].Ref())
	case OpSext:
		fmt.Fprintf(&b, "((_ sign_extend %d) %s)", t.P, t.Args[0].Ref())
	case OpExtract:
		fmt.Fprintf(&b, "((_ extract %d %d) %s)", t.P, t.Q, t.Args[0].Ref())
	case OpFpAdd, OpFpSub, OpFpMul, OpFpDiv:
		n := map[Op]string{OpFpAdd: "fp.add", OpFpSub: "fp.sub", OpFpMul: "fp.mul", OpFpDiv: "fp.div"}[t.Op]
		fmt.Fprintf(&b, "(%s RNE %s %s)", n, t.Args[0].Ref(), t.Args[1].Ref())
	case OpFpNeg:
		fmt.Fprintf(&b, "(fp.neg %s)", t.Args[0].Ref())
	case OpFpLt:
		fmt.Fprintf(&b, "(fp.lt %s %s)", t.Args[0].Ref(), t.Args[1].Ref())
	case OpFpLe:
		fmt.Fprintf(&b, "(fp.leq %s %s)", t.Args[0].Ref(), t.Args[1].Ref())
	case OpFpEq:
		fmt.Fprintf(&b, "(fp.eq %s %s)", t.Args[0].Ref(), t.Args[1].Ref())
	case OpFpIsNaN:
		fmt.Fprintf(&b, "(fp.isNaN %s)", t.Args[0].Ref())
	case OpFpIsInf:
		fmt.Fprintf(&b, "(fp.isInfinite %s)", t.Args[0].Ref())
	case OpFpFromSBV, OpFpFromUBV, OpFpFromBits, OpFpToFp:
		eb, sb := 11, 53
		if t.S.W == 32 {
			eb, sb = 8, 24
		}
		switch t.Op {
		case OpFpFromSBV:
			fmt.Fprintf(&b, "((_ to_fp %d %d) RNE %s)", eb, sb, t.Args[0].Ref())
		case OpFpFromUBV:
			fmt.Fprintf(&b, "((_ to_fp_unsigned %d %d) RNE %s)", eb, sb, t.Args[0].Ref())
		case OpFpFromBits:
			fmt.Fprintf(&b, "((_ to_fp %d %d) %s)", eb, sb, t.Args[0].Ref())
		case OpFpToFp:
			fmt.Fprintf(&b, "((_ to_fp %d %d) RNE %s)", eb, sb, t.Args[0].Ref())
		}
	case OpFpToSBV:
		fmt.Fprintf(&b, "((_ fp.to_sbv %d) RTZ %s)", t.P, t.Args[0].Ref())
	case OpFpToUBV:
		fmt.Fprintf(&b, "((_ fp.to_ubv %d) RTZ %s)", t.P, t.Args[0].Ref())
	default:
		b.WriteString("(" + opName[t.Op])
		for _, a := range t.Args {
			b.WriteString(" " + a.Ref())
		}
		b.WriteString(")")
	}
	return b.String()
}

// ---------------------------------------------------------------- floating point

func fbits(t *Term) float64 {
	if t.S.W == 32 {
		return float64(math.Float32frombits(uint32(t.Val)))
	}
	return math.Float64frombits(t.Val)
}

func (s *Store) FConst(w int, f float64) *Term {
	if w == 32 {
		return s.intern(&Term{Op: OpConst, S: FP(32), Val: uint64(math.Float32bits(float32(f)))})
	}
	return s.intern(&Term{Op: OpConst, S: FP(64), Val: math.Float64bits(f)})
}

func (s *Store) FBin(op Op, a, b *Term) *Term {
	if a.S != b.S {
		panic("fp sort mismatch")
	}
	if a.IsConst() && b.IsConst() {
		x, y := fbits(a), fbits(b)
		var r float64
		if a.S.W == 32 {
			x32, y32 := float32(x), float32(y)
			switch op {
			case OpFpAdd:
				r = float64(x32 + y32)
			case OpFpSub:
				r = float64(x32 - y32)
			case OpFpMul:
				r = float64(x32 * y32)
			case OpFpDiv:
				r = float64(x32 / y32)
			}
		} else {
			switch op {
			case OpFpAdd:
				r = x + y
			case OpFpSub:
				r = x - y
			case OpFpMul:
				r = x * y
			case OpFpDiv:
				r = x / y
			}
		}
		return s.FConst(a.S.W, r)
	}
	return s.intern(&Term{Op: op, S: a.S, Args: []*Term{a, b}})
}

func (s *Store) FNeg(a *Term) *Term {
	if a.IsConst() {
		return s.FConst(a.S.W, -fbits(a))
	}
	return s.intern(&Term{Op: OpFpNeg, S: a.S, Args: []*Term{a}})
}

func (s *Store) FCmp(op Op, a, b *Term) *Term {
	if a.S != b.S {
		panic("fp sort mismatch")
	}
	if a.IsConst() && b.IsConst() {
		x, y := fbits(a), fbits(b)
		switch op {
		case OpFpLt:
			return s.BoolC(x < y)
		case OpFpLe:
			return s.BoolC(x <= y)
		case OpFpEq:
			return s.BoolC(x == y)
		}
	}
	return s.intern(&Term{Op: op, S: Bool, Args: []*Term{a, b}})
}

func (s *Store) FIsNaN(a *Term) *Term {
	if a.IsConst() {
		return s.BoolC(math.IsNaN(fbits(a)))
	}
	return s.intern(&Term{Op: OpFpIsNaN, S: Bool, Args: []*Term{a}})
}

func (s *Store) FIsInf(a *Term) *Term {
	if a.IsConst() {
		return s.BoolC(math.IsInf(fbits(a), 0))
	}
	return s.intern(&Term{Op: OpFpIsInf, S: Bool, Args: []*Term{a}})
}

// FFromBV converts an integer bit-vector to floating point (RNE).
func (s *Store) FFromBV(a *Term, w int, signedSrc bool) *Term {
	if a.IsConst() {
		if signedSrc {
			return s.FConst(w, float64(signed(a.Val, a.S.W)))
		}
		return s.FConst(w, float64(a.Val))
	}
	op := OpFpFromUBV
	if signedSrc {
		op = OpFpFromSBV
	}
	return s.intern(&Term{Op: op, S: FP(w), Args: []*Term{a}})
}

// FToBV converts floating point to an integer bit-vector (RTZ).  Out-of-range
// results are unspecified in SMT-LIB as they are implementation-specific in Go.
func (s *Store) FToBV(a *Term, w int, signedDst bool) *Term {
	if a.IsConst() {
		f := fbits(a)
		if signedDst {
			return s.Const(w, uint64(int64(f)))
		}
		return s.Const(w, uint64(f))
	}
	op := OpFpToUBV
	if signedDst {
		op = OpFpToSBV
	}
	return s.intern(&Term{Op: op, S: BV(w), Args: []*Term{a}, P: w})
}

func (s *Store) FFromBits(a *Term) *Term {
	if a.IsConst() {
		return s.intern(&Term{Op: OpConst, S: FP(a.S.W), Val: a.Val})
	}
	return s.intern(&Term{Op: OpFpFromBits, S: FP(a.S.W), Args: []*Term{a}})
}

func (s *Store) FToFp(a *Term, w int) *Term {
	if a.S.W == w {
		return a
	}
	if a.IsConst() {
		return s.FConst(w, fbits(a))
	}
	return s.intern(&Term{Op: OpFpToFp, S: FP(w), Args: []*Term{a}})
}

// Extract bits [hi:lo].
func (s *Store) Extract(a *Term, hi, lo int) *Term {
	if a.IsConst() {
		return s.Const(hi-lo+1, a.Val>>uint(lo))
	}
	if lo == 0 && hi == a.S.W-1 {
		return a
	}
	return s.intern(&Term{Op: OpExtract, S: BV(hi - lo + 1), Args: []*Term{a}, P: hi, Q: lo})
}

func (s *Store) Concat(a, b *Term) *Term {
	if a.IsConst() && b.IsConst() {
		return s.Const(a.S.W+b.S.W, a.Val<<uint(b.S.W)|b.Val)
	}
	return s.intern(&Term{Op: OpConcat, S: BV(a.S.W + b.S.W), Args: []*Term{a, b}})
}

func (s *Store) Implies(a, b *Term) *Term { return s.Or(s.Not(a), b) }

func (s *Store) NumTerms() int { return s.next }

func (t *Term) OpName() string {
	if n, ok := opName[t.Op]; ok {
		return n
	}
	switch t.Op {
	case OpZext:
		return "zext"
	case OpSext:
		return "sext"
	case OpExtract:
		return "extract"
	}
	return fmt.Sprintf("op%d", t.Op)
}

// FoldBin evaluates a binary bit-vector operation on constants (SMT-LIB semantics).
func FoldBin(op Op, x, y uint64, w int) uint64 {
	var r uint64
	switch op {
	case OpBvAdd:
		r = x + y
	case OpBvSub:
		r = x - y
	case OpBvMul:
		r = x * y
	case OpBvAnd:
		r = x & y
	case OpBvOr:
		r = x | y
	case OpBvXor:
		r = x ^ y
	case OpBvUDiv:
		if y == 0 {
			r = mask(w)
		} else {
			r = x / y
		}
	case OpBvURem:
		if y == 0 {
			r = x
		} else {
			r = x % y
		}
	case OpBvSDiv:
		sx, sy := signed(x, w), signed(y, w)
		if sy == 0 {
			if sx >= 0 {
				r = mask(w)
			} else {
				r = 1
			}
		} else if sy == -1 {
			r = uint64(-sx)
		} else {
			r = uint64(sx / sy)
		}
	case OpBvSRem:
		sx, sy := signed(x, w), signed(y, w)
		if sy == 0 {
			r = x
		} else if sy == -1 {
			r = 0
		} else {
			r = uint64(sx % sy)
		}
	case OpBvShl:
		if y >= uint64(w) {
			r = 0
		} else {
			r = x << y
		}
	case OpBvLshr:
		if y >= uint64(w) {
			r = 0
		} else {
			r = x >> y
		}
	case OpBvAshr:
		sx := signed(x, w)
		if y >= uint64(w) {
			if sx < 0 {
				r = mask(w)
			} else {
				r = 0
			}
		} else {
			r = uint64(sx >> y)
		}
	default:
		panic("FoldBin: not a binary bit-vector op")
	}
	return r & mask(w)
}
