package smt

import (
	"fmt"
	"math/big"

	"gosym/term"
)

// Integer rendering ("bv as int with wrap"): every bit-vector term is emitted as an SMT Int
// expression denoting its unsigned value in [0, 2^w); a conservative interval is computed bottom
// up and `mod 2^w` is emitted only where the exact result can leave the range.  Multiplication,
// division and remainder are supported with a constant operand (linear arithmetic); bit
// operations only in the forms that are arithmetic (masks 2^k-1 and single contiguous fields,
// shifts by constants).  Anything else is an error: the query is inconclusive, never approximated.

type intInfo struct {
	lo, hi *big.Int
}

var (
	bigZero = big.NewInt(0)
	bigOne  = big.NewInt(1)
)

func pow2(w int) *big.Int { return new(big.Int).Lsh(bigOne, uint(w)) }

func dec(x *big.Int) string {
	if x.Sign() < 0 {
		return "(- " + new(big.Int).Neg(x).String() + ")"
	}
	return x.String()
}

func (s *Solver) iref(t *term.Term) string {
	switch t.Op {
	case term.OpConst:
		if t.S.K == term.KBool {
			if t.Val == 1 {
				return "true"
			}
			return "false"
		}
		return new(big.Int).SetUint64(t.Val).String()
	case term.OpVar:
		return t.Name
	}
	return fmt.Sprintf("t%d", t.ID)
}

func (s *Solver) iinfo(t *term.Term) intInfo {
	if t.Op == term.OpConst {
		v := new(big.Int).SetUint64(t.Val)
		return intInfo{v, v}
	}
	if ii, ok := s.ints[t.ID]; ok {
		return ii
	}
	return intInfo{bigZero, new(big.Int).Sub(pow2(t.S.W), bigOne)}
}

// signedExpr renders the two's-complement signed value of a (width w) and its interval.
func (s *Solver) signedExpr(a *term.Term) (string, *big.Int, *big.Int) {
	w := a.S.W
	ii := s.iinfo(a)
	half := pow2(w - 1)
	full := pow2(w)
	r := s.iref(a)
	switch {
	case ii.hi.Cmp(half) < 0:
		return r, ii.lo, ii.hi
	case ii.lo.Cmp(half) >= 0:
		return fmt.Sprintf("(- %s %s)", r, full), new(big.Int).Sub(ii.lo, full), new(big.Int).Sub(ii.hi, full)
	}
	return fmt.Sprintf("(ite (>= %s %s) (- %s %s) %s)", r, half, r, full, r), new(big.Int).Neg(half), new(big.Int).Sub(half, bigOne)
}

// wrap renders expr with exact value in [lo,hi] as an unsigned w-bit value.
func wrap(expr string, lo, hi *big.Int, w int) (string, intInfo) {
	full := pow2(w)
	max := new(big.Int).Sub(full, bigOne)
	if lo.Sign() >= 0 && hi.Cmp(max) <= 0 {
		return expr, intInfo{lo, hi}
	}
	// one-sided shifts avoid mod when the value is known to be within one period
	if lo.Sign() < 0 && new(big.Int).Neg(lo).Cmp(full) <= 0 && hi.Sign() < 0 {
		return fmt.Sprintf("(+ %s %s)", expr, full), intInfo{new(big.Int).Add(lo, full), new(big.Int).Add(hi, full)}
	}
	return fmt.Sprintf("(mod %s %s)", expr, full), intInfo{bigZero, max}
}

func constOf(t *term.Term) (*big.Int, bool) {
	if t.Op == term.OpConst && t.S.K == term.KBV {
		return new(big.Int).SetUint64(t.Val), true
	}
	return nil, false
}

func minmax4(a, b, c, d *big.Int) (*big.Int, *big.Int) {
	lo, hi := a, a
	for _, x := range []*big.Int{b, c, d} {
		if x.Cmp(lo) < 0 {
			lo = x
		}
		if x.Cmp(hi) > 0 {
			hi = x
		}
	}
	return lo, hi
}

// lowMask reports k if v == 2^k - 1.
func lowMask(v uint64) (int, bool) {
	if v&(v+1) != 0 {
		return 0, false
	}
	k := 0
	for v != 0 {
		k++
		v >>= 1
	}
	return k, true
}

// field reports (j,k) if v has exactly the bits j..j+k-1 set.
func field(v uint64) (int, int, bool) {
	if v == 0 {
		return 0, 0, false
	}
	j := 0
	for v&1 == 0 {
		v >>= 1
		j++
	}
	k, ok := lowMask(v)
	return j, k, ok
}

// defineIntTerm emits the definition of one term (children already defined).
func (s *Solver) defineIntTerm(x *term.Term) error {
	if x.S.K == term.KFP {
		return fmt.Errorf("integer back end: floating point term")
	}
	for _, a := range x.Args {
		if a.S.K == term.KFP {
			return fmt.Errorf("integer back end: floating point term")
		}
	}
	switch x.Op {
	case term.OpConst:
		return nil
	case term.OpVar:
		if x.S.K == term.KBool {
			s.send(fmt.Sprintf("(declare-const %s Bool)", x.Name))
			return nil
		}
		s.send(fmt.Sprintf("(declare-const %s_raw Int)", x.Name))
		s.send(fmt.Sprintf("(define-fun %s () Int (mod %s_raw %s))", x.Name, x.Name, pow2(x.S.W)))
		s.ints[x.ID] = intInfo{bigZero, new(big.Int).Sub(pow2(x.S.W), bigOne)}
		return nil
	}
	w := x.S.W
	def := func(expr string, ii intInfo) {
		s.send(fmt.Sprintf("(define-fun t%d () Int %s)", x.ID, expr))
		s.ints[x.ID] = ii
	}
	defB := func(expr string) {
		s.send(fmt.Sprintf("(define-fun t%d () Bool %s)", x.ID, expr))
	}
	arg := func(i int) (string, intInfo) { return s.iref(x.Args[i]), s.iinfo(x.Args[i]) }
	switch x.Op {
	case term.OpNot:
		defB("(not " + s.iref(x.Args[0]) + ")")
	case term.OpAnd:
		defB("(and " + s.iref(x.Args[0]) + " " + s.iref(x.Args[1]) + ")")
	case term.OpOr:
		defB("(or " + s.iref(x.Args[0]) + " " + s.iref(x.Args[1]) + ")")
	case term.OpEq:
		defB("(= " + s.iref(x.Args[0]) + " " + s.iref(x.Args[1]) + ")")
	case term.OpIte:
		if x.S.K == term.KBool {
			defB("(ite " + s.iref(x.Args[0]) + " " + s.iref(x.Args[1]) + " " + s.iref(x.Args[2]) + ")")
			return nil
		}
		_, a := arg(1)
		_, b := arg(2)
		lo, hi := a.lo, a.hi
		if b.lo.Cmp(lo) < 0 {
			lo = b.lo
		}
		if b.hi.Cmp(hi) > 0 {
			hi = b.hi
		}
		def("(ite "+s.iref(x.Args[0])+" "+s.iref(x.Args[1])+" "+s.iref(x.Args[2])+")", intInfo{lo, hi})
	case term.OpBvAdd:
		ra, a := arg(0)
		rb, b := arg(1)
		e, ii := wrap("(+ "+ra+" "+rb+")", new(big.Int).Add(a.lo, b.lo), new(big.Int).Add(a.hi, b.hi), w)
		def(e, ii)
	case term.OpBvSub:
		ra, a := arg(0)
		rb, b := arg(1)
		e, ii := wrap("(- "+ra+" "+rb+")", new(big.Int).Sub(a.lo, b.hi), new(big.Int).Sub(a.hi, b.lo), w)
		def(e, ii)
	case term.OpBvNeg:
		ra, a := arg(0)
		e, ii := wrap("(- "+ra+")", new(big.Int).Neg(a.hi), new(big.Int).Neg(a.lo), w)
		def(e, ii)
	case term.OpBvNot:
		ra, a := arg(0)
		max := new(big.Int).Sub(pow2(w), bigOne)
		def(fmt.Sprintf("(- %s %s)", max, ra), intInfo{new(big.Int).Sub(max, a.hi), new(big.Int).Sub(max, a.lo)})
	case term.OpBvMul:
		// one operand constant; the product is taken over the *signed* values when an operand may be
		// "negative" (two's complement), which keeps small negative numbers small
		ci, vi := 0, 1
		c, ok := constOf(x.Args[0])
		if !ok {
			ci, vi = 1, 0
			c, ok = constOf(x.Args[1])
		}
		_ = ci
		if !ok {
			return fmt.Errorf("integer back end: product of two symbolic values")
		}
		half := pow2(w - 1)
		if c.Cmp(half) >= 0 { // negative constant
			c = new(big.Int).Sub(c, pow2(w))
		}
		sv, slo, shi := s.signedExpr(x.Args[vi])
		p1, p2 := new(big.Int).Mul(slo, c), new(big.Int).Mul(shi, c)
		lo, hi := minmax4(p1, p2, p1, p2)
		e, ii := wrap(fmt.Sprintf("(* %s %s)", dec(c), sv), lo, hi, w)
		def(e, ii)
	case term.OpBvUDiv, term.OpBvURem:
		c, ok := constOf(x.Args[1])
		if !ok || c.Sign() == 0 {
			return fmt.Errorf("integer back end: division by a symbolic value")
		}
		ra, a := arg(0)
		if x.Op == term.OpBvUDiv {
			def(fmt.Sprintf("(div %s %s)", ra, c), intInfo{new(big.Int).Div(a.lo, c), new(big.Int).Div(a.hi, c)})
		} else {
			hi := new(big.Int).Sub(c, bigOne)
			if a.hi.Cmp(hi) < 0 {
				hi = a.hi
			}
			def(fmt.Sprintf("(mod %s %s)", ra, c), intInfo{bigZero, hi})
		}
	case term.OpBvSDiv, term.OpBvSRem:
		c, ok := constOf(x.Args[1])
		if !ok || c.Sign() == 0 {
			return fmt.Errorf("integer back end: division by a symbolic value")
		}
		half := pow2(w - 1)
		neg := false
		if c.Cmp(half) >= 0 {
			c = new(big.Int).Sub(pow2(w), c) // |c|
			neg = true
		}
		sv, slo, shi := s.signedExpr(x.Args[0])
		// truncated division: q = sign(a) * (|a| div |c|), r = a - q*c
		var q string
		if slo.Sign() >= 0 {
			q = fmt.Sprintf("(div %s %s)", sv, c)
		} else if shi.Sign() < 0 {
			q = fmt.Sprintf("(- (div (- %s) %s))", sv, c)
		} else {
			q = fmt.Sprintf("(ite (>= %s 0) (div %s %s) (- (div (- %s) %s)))", sv, sv, c, sv, c)
		}
		qlo, qhi := new(big.Int).Quo(slo, c), new(big.Int).Quo(shi, c)
		if x.Op == term.OpBvSDiv {
			if neg {
				q = "(- " + q + ")"
				qlo, qhi = new(big.Int).Neg(qhi), new(big.Int).Neg(qlo)
			}
			e, ii := wrap(q, qlo, qhi, w)
			def(e, ii)
		} else {
			// remainder has the sign of the dividend, |r| < |c|
			r := fmt.Sprintf("(- %s (* %s %s))", sv, c, q)
			cm1 := new(big.Int).Sub(c, bigOne)
			rlo, rhi := new(big.Int).Neg(cm1), cm1
			if slo.Sign() >= 0 {
				rlo = bigZero
			}
			if shi.Sign() < 0 {
				rhi = bigZero
			}
			e, ii := wrap(r, rlo, rhi, w)
			def(e, ii)
		}
	case term.OpBvAnd:
		ci, vi := 0, 1
		cu, ok := uint64(0), false
		if x.Args[0].IsConst() {
			cu, ok = x.Args[0].Val, true
		} else if x.Args[1].IsConst() {
			cu, ok, ci, vi = x.Args[1].Val, true, 1, 0
		}
		_ = ci
		if !ok {
			// a & b of two symbolic values: sound over-approximation - some value between 0 and
			// min(a, b) (a "holds" verdict stays valid; a counterexample is confirmed by replay)
			ra, a := arg(0)
			rb, b := arg(1)
			s.send(fmt.Sprintf("(declare-const t%d_raw Int)", x.ID))
			hi := a.hi
			if b.hi.Cmp(hi) < 0 {
				hi = b.hi
			}
			def(fmt.Sprintf("(ite (and (<= 0 t%d_raw) (<= t%d_raw %s) (<= t%d_raw %s)) t%d_raw 0)", x.ID, x.ID, ra, x.ID, rb, x.ID), intInfo{bigZero, hi})
			return nil
		}
		rv, v := s.iref(x.Args[vi]), s.iinfo(x.Args[vi])
		if k, isLow := lowMask(cu); isLow {
			p := pow2(k)
			hi := new(big.Int).Sub(p, bigOne)
			if v.hi.Cmp(hi) <= 0 {
				def(rv, v)
			} else {
				def(fmt.Sprintf("(mod %s %s)", rv, p), intInfo{bigZero, hi})
			}
			return nil
		}
		if j, k, isField := field(cu); isField {
			pj, pk := pow2(j), pow2(k)
			if v.hi.Cmp(pj) < 0 {
				def("0", intInfo{bigZero, bigZero})
				return nil
			}
			def(fmt.Sprintf("(* %s (mod (div %s %s) %s))", pj, rv, pj, pk), intInfo{bigZero, new(big.Int).SetUint64(cu)})
			return nil
		}
		return fmt.Errorf("integer back end: bit-and with mask %#x", cu)
	case term.OpBvOr, term.OpBvXor:
		// only when the operands cannot overlap: one is below 2^j, the other a multiple of 2^j
		ra, a := arg(0)
		rb, b := arg(1)
		disjoint := func(small intInfo, big_ *term.Term) bool {
			if big_.Op == term.OpBvShl && big_.Args[1].IsConst() {
				return small.hi.Cmp(pow2(int(big_.Args[1].Val))) < 0
			}
			if big_.IsConst() && big_.Val != 0 {
				j := 0
				for v := big_.Val; v&1 == 0; v >>= 1 {
					j++
				}
				return small.hi.Cmp(pow2(j)) < 0
			}
			return false
		}
		if disjoint(a, x.Args[1]) || disjoint(b, x.Args[0]) {
			e, ii := wrap("(+ "+ra+" "+rb+")", new(big.Int).Add(a.lo, b.lo), new(big.Int).Add(a.hi, b.hi), w)
			def(e, ii)
			return nil
		}
		return fmt.Errorf("integer back end: bit-or/xor of overlapping values")
	case term.OpBvShl:
		if !x.Args[1].IsConst() {
			return fmt.Errorf("integer back end: shift by a symbolic amount")
		}
		k := int(x.Args[1].Val)
		if k >= w {
			def("0", intInfo{bigZero, bigZero})
			return nil
		}
		ra, a := arg(0)
		p := pow2(k)
		e, ii := wrap(fmt.Sprintf("(* %s %s)", p, ra), new(big.Int).Mul(a.lo, p), new(big.Int).Mul(a.hi, p), w)
		def(e, ii)
	case term.OpBvLshr:
		if !x.Args[1].IsConst() {
			return fmt.Errorf("integer back end: shift by a symbolic amount")
		}
		k := int(x.Args[1].Val)
		if k >= w {
			def("0", intInfo{bigZero, bigZero})
			return nil
		}
		ra, a := arg(0)
		p := pow2(k)
		def(fmt.Sprintf("(div %s %s)", ra, p), intInfo{new(big.Int).Div(a.lo, p), new(big.Int).Div(a.hi, p)})
	case term.OpBvAshr:
		if !x.Args[1].IsConst() {
			return fmt.Errorf("integer back end: shift by a symbolic amount")
		}
		k := int(x.Args[1].Val)
		if k >= w {
			k = w - 1
		}
		sv, slo, shi := s.signedExpr(x.Args[0])
		p := pow2(k)
		fl := func(v *big.Int) *big.Int { // floor division
			q, m := new(big.Int).DivMod(v, p, new(big.Int))
			_ = m
			return q
		}
		e, ii := wrap(fmt.Sprintf("(div %s %s)", sv, p), fl(slo), fl(shi), w)
		def(e, ii)
	case term.OpZext:
		ra, a := arg(0)
		def(ra, a)
	case term.OpSext:
		sv, slo, shi := s.signedExpr(x.Args[0])
		e, ii := wrap(sv, slo, shi, w)
		def(e, ii)
	case term.OpExtract:
		ra, a := arg(0)
		n := x.P - x.Q + 1
		pn := pow2(n)
		expr := ra
		lo, hi := a.lo, a.hi
		if x.Q > 0 {
			pq := pow2(x.Q)
			expr = fmt.Sprintf("(div %s %s)", ra, pq)
			lo, hi = new(big.Int).Div(a.lo, pq), new(big.Int).Div(a.hi, pq)
		}
		if hi.Cmp(pn) < 0 {
			def(expr, intInfo{lo, hi})
		} else {
			def(fmt.Sprintf("(mod %s %s)", expr, pn), intInfo{bigZero, new(big.Int).Sub(pn, bigOne)})
		}
	case term.OpConcat:
		ra, a := arg(0)
		rb, b := arg(1)
		p := pow2(x.Args[1].S.W)
		def(fmt.Sprintf("(+ (* %s %s) %s)", p, ra, rb), intInfo{new(big.Int).Add(new(big.Int).Mul(a.lo, p), b.lo), new(big.Int).Add(new(big.Int).Mul(a.hi, p), b.hi)})
	case term.OpBvUlt:
		defB("(< " + s.iref(x.Args[0]) + " " + s.iref(x.Args[1]) + ")")
	case term.OpBvUle:
		defB("(<= " + s.iref(x.Args[0]) + " " + s.iref(x.Args[1]) + ")")
	case term.OpBvSlt, term.OpBvSle:
		sa, _, _ := s.signedExpr(x.Args[0])
		sb, _, _ := s.signedExpr(x.Args[1])
		op := "<"
		if x.Op == term.OpBvSle {
			op = "<="
		}
		defB("(" + op + " " + sa + " " + sb + ")")
	default:
		return fmt.Errorf("integer back end: unsupported operation %s", x.OpName())
	}
	return nil
}
