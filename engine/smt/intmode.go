package smt

import (
	"fmt"
	"math/big"
	"strings"

	"gosym/term"
)

// Integer rendering ("bv as int with wrap"): every bit-vector term is emitted as an SMT Int
// expression denoting its unsigned value in [0, 2^w); a conservative interval is computed bottom
// up and `mod 2^w` is emitted only where the exact result can leave the range.  Multiplication,
// division and remainder are supported with a constant operand (linear arithmetic); bit
// operations only in the forms that are arithmetic (masks 2^k-1 and single contiguous fields,
// shifts by constants).  Anything else is an error: the query is inconclusive, never approximated.

type intInfo struct {
	lo, hi *big.Int
	tz     int // the value is known to be a multiple of 2^tz
}

var (
	bigZero = big.NewInt(0)
	bigOne  = big.NewInt(1)
)

func ii2(lo, hi *big.Int) intInfo { return intInfo{lo: lo, hi: hi} }

func pow2(w int) *big.Int { return new(big.Int).Lsh(bigOne, uint(w)) }

func dec(x *big.Int) string {
	if x.Sign() < 0 {
		return "(- " + new(big.Int).Neg(x).String() + ")"
	}
	return x.String()
}

func (s *Solver) iref(t *term.Term) string {
	switch t.Op {
	case term.OpConst:
		if t.S.K == term.KBool {
			if t.Val == 1 {
				return "true"
			}
			return "false"
		}
		return new(big.Int).SetUint64(t.Val).String()
	case term.OpVar:
		return t.Name
	}
	return fmt.Sprintf("t%d", t.ID)
}

func (s *Solver) iinfo(t *term.Term) intInfo {
	if t.Op == term.OpConst {
		v := new(big.Int).SetUint64(t.Val)
		tz := 0
		if t.Val == 0 {
			tz = 64
		} else {
			for u := t.Val; u&1 == 0; u >>= 1 {
				tz++
			}
		}
		return intInfo{lo: v, hi: v, tz: tz}
	}
	if ii, ok := s.ints[t.ID]; ok {
		return ii
	}
	return ii2(bigZero, new(big.Int).Sub(pow2(t.S.W), bigOne))
}

// signedExpr renders the two's-complement signed value of a (width w) and its interval.
func (s *Solver) signedExpr(a *term.Term) (string, *big.Int, *big.Int) {
	w := a.S.W
	ii := s.iinfo(a)
	half := pow2(w - 1)
	full := pow2(w)
	r := s.iref(a)
	switch {
	case ii.hi.Cmp(half) < 0:
		return r, ii.lo, ii.hi
	case ii.lo.Cmp(half) >= 0:
		return fmt.Sprintf("(- %s %s)", r, full), new(big.Int).Sub(ii.lo, full), new(big.Int).Sub(ii.hi, full)
	}
	return fmt.Sprintf("(ite (>= %s %s) (- %s %s) %s)", r, half, r, full, r), new(big.Int).Neg(half), new(big.Int).Sub(half, bigOne)
}

// wrap renders expr with exact value in [lo,hi] as an unsigned w-bit value.
func wrap(expr string, lo, hi *big.Int, w int) (string, intInfo) {
	full := pow2(w)
	max := new(big.Int).Sub(full, bigOne)
	if lo.Sign() >= 0 && hi.Cmp(max) <= 0 {
		return expr, ii2(lo, hi)
	}
	// one-sided shifts avoid mod when the value is known to be within one period
	if lo.Sign() < 0 && new(big.Int).Neg(lo).Cmp(full) <= 0 && hi.Sign() < 0 {
		return fmt.Sprintf("(+ %s %s)", expr, full), ii2(new(big.Int).Add(lo, full), new(big.Int).Add(hi, full))
	}
	return fmt.Sprintf("(mod %s %s)", expr, full), ii2(bigZero, max)
}

func constOf(t *term.Term) (*big.Int, bool) {
	if t.Op == term.OpConst && t.S.K == term.KBV {
		return new(big.Int).SetUint64(t.Val), true
	}
	return nil, false
}

func minmax4(a, b, c, d *big.Int) (*big.Int, *big.Int) {
	lo, hi := a, a
	for _, x := range []*big.Int{b, c, d} {
		if x.Cmp(lo) < 0 {
			lo = x
		}
		if x.Cmp(hi) > 0 {
			hi = x
		}
	}
	return lo, hi
}

// lowMask reports k if v == 2^k - 1.
func lowMask(v uint64) (int, bool) {
	if v&(v+1) != 0 {
		return 0, false
	}
	k := 0
	for v != 0 {
		k++
		v >>= 1
	}
	return k, true
}

// field reports (j,k) if v has exactly the bits j..j+k-1 set.
func field(v uint64) (int, int, bool) {
	if v == 0 {
		return 0, 0, false
	}
	j := 0
	for v&1 == 0 {
		v >>= 1
		j++
	}
	k, ok := lowMask(v)
	return j, k, ok
}

// defineIntTerm emits the definition of one term (children already defined).
func (s *Solver) defineIntTerm(x *term.Term) error {
	if x.S.K == term.KFP {
		return fmt.Errorf("integer back end: floating point term")
	}
	for _, a := range x.Args {
		if a.S.K == term.KFP {
			return fmt.Errorf("integer back end: floating point term")
		}
	}
	switch x.Op {
	case term.OpConst:
		return nil
	case term.OpVar:
		if x.S.K == term.KBool {
			s.send(fmt.Sprintf("(declare-const %s Bool)", x.Name))
			return nil
		}
		s.send(fmt.Sprintf("(declare-const %s_raw Int)", x.Name))
		s.send(fmt.Sprintf("(define-fun %s () Int (mod %s_raw %s))", x.Name, x.Name, pow2(x.S.W)))
		s.ints[x.ID] = ii2(bigZero, new(big.Int).Sub(pow2(x.S.W), bigOne))
		return nil
	}
	w := x.S.W
	def := func(expr string, ii intInfo) {
		s.send(fmt.Sprintf("(define-fun t%d () Int %s)", x.ID, expr))
		if ii.tz > w {
			ii.tz = w
		}
		s.ints[x.ID] = ii
	}
	withTz := func(ii intInfo, tz int) intInfo { ii.tz = tz; return ii }
	_ = withTz
	defB := func(expr string) {
		s.send(fmt.Sprintf("(define-fun t%d () Bool %s)", x.ID, expr))
	}
	arg := func(i int) (string, intInfo) { return s.iref(x.Args[i]), s.iinfo(x.Args[i]) }
	switch x.Op {
	case term.OpNot:
		defB("(not " + s.iref(x.Args[0]) + ")")
	case term.OpAnd:
		defB("(and " + s.iref(x.Args[0]) + " " + s.iref(x.Args[1]) + ")")
	case term.OpOr:
		defB("(or " + s.iref(x.Args[0]) + " " + s.iref(x.Args[1]) + ")")
	case term.OpEq:
		defB("(= " + s.iref(x.Args[0]) + " " + s.iref(x.Args[1]) + ")")
	case term.OpIte:
		if x.S.K == term.KBool {
			defB("(ite " + s.iref(x.Args[0]) + " " + s.iref(x.Args[1]) + " " + s.iref(x.Args[2]) + ")")
			return nil
		}
		_, a := arg(1)
		_, b := arg(2)
		lo, hi := a.lo, a.hi
		if b.lo.Cmp(lo) < 0 {
			lo = b.lo
		}
		if b.hi.Cmp(hi) > 0 {
			hi = b.hi
		}
		def("(ite "+s.iref(x.Args[0])+" "+s.iref(x.Args[1])+" "+s.iref(x.Args[2])+")", withTz(ii2(lo, hi), min(a.tz, b.tz)))
	case term.OpBvAdd:
		ra, a := arg(0)
		rb, b := arg(1)
		e, ii := wrap("(+ "+ra+" "+rb+")", new(big.Int).Add(a.lo, b.lo), new(big.Int).Add(a.hi, b.hi), w)
		def(e, withTz(ii, min(a.tz, b.tz)))
	case term.OpBvSub:
		ra, a := arg(0)
		rb, b := arg(1)
		e, ii := wrap("(- "+ra+" "+rb+")", new(big.Int).Sub(a.lo, b.hi), new(big.Int).Sub(a.hi, b.lo), w)
		def(e, withTz(ii, min(a.tz, b.tz)))
	case term.OpBvNeg:
		ra, a := arg(0)
		e, ii := wrap("(- "+ra+")", new(big.Int).Neg(a.hi), new(big.Int).Neg(a.lo), w)
		def(e, ii)
	case term.OpBvNot:
		ra, a := arg(0)
		max := new(big.Int).Sub(pow2(w), bigOne)
		def(fmt.Sprintf("(- %s %s)", max, ra), ii2(new(big.Int).Sub(max, a.hi), new(big.Int).Sub(max, a.lo)))
	case term.OpBvMul:
		// one operand constant; the product is taken over the *signed* values when an operand may be
		// "negative" (two's complement), which keeps small negative numbers small
		ci, vi := 0, 1
		c, ok := constOf(x.Args[0])
		if !ok {
			ci, vi = 1, 0
			c, ok = constOf(x.Args[1])
		}
		_ = ci
		if !ok {
			return fmt.Errorf("integer back end: product of two symbolic values")
		}
		half := pow2(w - 1)
		if c.Cmp(half) >= 0 { // negative constant
			c = new(big.Int).Sub(c, pow2(w))
		}
		sv, slo, shi := s.signedExpr(x.Args[vi])
		p1, p2 := new(big.Int).Mul(slo, c), new(big.Int).Mul(shi, c)
		lo, hi := minmax4(p1, p2, p1, p2)
		e, ii := wrap(fmt.Sprintf("(* %s %s)", dec(c), sv), lo, hi, w)
		ctz := 0
		if c.Sign() != 0 {
			ctz = int(new(big.Int).Abs(c).TrailingZeroBits())
		} else {
			ctz = w
		}
		def(e, withTz(ii, s.iinfo(x.Args[vi]).tz+ctz))
	case term.OpBvUDiv, term.OpBvURem:
		c, ok := constOf(x.Args[1])
		if !ok || c.Sign() == 0 {
			return fmt.Errorf("integer back end: division by a symbolic value")
		}
		ra, a := arg(0)
		if x.Op == term.OpBvUDiv {
			def(fmt.Sprintf("(div %s %s)", ra, c), ii2(new(big.Int).Div(a.lo, c), new(big.Int).Div(a.hi, c)))
		} else {
			hi := new(big.Int).Sub(c, bigOne)
			if a.hi.Cmp(hi) < 0 {
				hi = a.hi
			}
			def(fmt.Sprintf("(mod %s %s)", ra, c), ii2(bigZero, hi))
		}
	case term.OpBvSDiv, term.OpBvSRem:
		c, ok := constOf(x.Args[1])
		if !ok || c.Sign() == 0 {
			return fmt.Errorf("integer back end: division by a symbolic value")
		}
		half := pow2(w - 1)
		neg := false
		if c.Cmp(half) >= 0 {
			c = new(big.Int).Sub(pow2(w), c) // |c|
			neg = true
		}
		sv, slo, shi := s.signedExpr(x.Args[0])
		// truncated division: q = sign(a) * (|a| div |c|), r = a - q*c
		var q string
		if slo.Sign() >= 0 {
			q = fmt.Sprintf("(div %s %s)", sv, c)
		} else if shi.Sign() < 0 {
			q = fmt.Sprintf("(- (div (- %s) %s))", sv, c)
		} else {
			q = fmt.Sprintf("(ite (>= %s 0) (div %s %s) (- (div (- %s) %s)))", sv, sv, c, sv, c)
		}
		qlo, qhi := new(big.Int).Quo(slo, c), new(big.Int).Quo(shi, c)
		if x.Op == term.OpBvSDiv {
			if neg {
				q = "(- " + q + ")"
				qlo, qhi = new(big.Int).Neg(qhi), new(big.Int).Neg(qlo)
			}
			e, ii := wrap(q, qlo, qhi, w)
			def(e, ii)
		} else {
			// remainder has the sign of the dividend, |r| < |c|
			r := fmt.Sprintf("(- %s (* %s %s))", sv, c, q)
			cm1 := new(big.Int).Sub(c, bigOne)
			rlo, rhi := new(big.Int).Neg(cm1), cm1
			if slo.Sign() >= 0 {
				rlo = bigZero
			}
			if shi.Sign() < 0 {
				rhi = bigZero
			}
			e, ii := wrap(r, rlo, rhi, w)
			def(e, ii)
		}
	case term.OpBvAnd, term.OpBvOr, term.OpBvXor:
		return s.defineBitop(x)
	case term.OpBvShl, term.OpBvLshr:
		ra, a := arg(0)
		if !x.Args[1].IsConst() {
			// symbolic amount: case split over the feasible amounts (interval of the amount, at most w)
			rk, k := arg(1)
			lo, hi := 0, w
			if k.lo.IsInt64() && k.lo.Int64() < int64(w) {
				lo = int(k.lo.Int64())
			} else {
				lo = w
			}
			if k.hi.IsInt64() && k.hi.Int64() < int64(w) {
				hi = int(k.hi.Int64())
			}
			expr := "0" // amount >= w
			rlo, rhi := bigZero, bigZero
			if hi < w {
				expr = ""
			}
			first := true
			for i := hi; i >= lo; i-- {
				if i >= w {
					continue
				}
				p := pow2(i)
				var e string
				var ii intInfo
				if x.Op == term.OpBvShl {
					e, ii = wrap(fmt.Sprintf("(* %s %s)", p, ra), new(big.Int).Mul(a.lo, p), new(big.Int).Mul(a.hi, p), w)
				} else {
					e, ii = fmt.Sprintf("(div %s %s)", ra, p), ii2(new(big.Int).Div(a.lo, p), new(big.Int).Div(a.hi, p))
				}
				if expr == "" {
					expr = e
					rlo, rhi = ii.lo, ii.hi
				} else {
					expr = fmt.Sprintf("(ite (= %s %d) %s %s)", rk, i, e, expr)
					if first && hi >= w {
						rlo, rhi = bigZero, ii.hi
					}
					if ii.lo.Cmp(rlo) < 0 {
						rlo = ii.lo
					}
					if ii.hi.Cmp(rhi) > 0 {
						rhi = ii.hi
					}
				}
				first = false
			}
			if expr == "" {
				expr = "0"
			}
			def(expr, ii2(rlo, rhi))
			return nil
		}
		k := int(x.Args[1].Val)
		if k >= w {
			def("0", ii2(bigZero, bigZero))
			return nil
		}
		p := pow2(k)
		if x.Op == term.OpBvShl {
			e, ii := wrap(fmt.Sprintf("(* %s %s)", p, ra), new(big.Int).Mul(a.lo, p), new(big.Int).Mul(a.hi, p), w)
			def(e, withTz(ii, a.tz+k))
		} else {
			def(fmt.Sprintf("(div %s %s)", ra, p), ii2(new(big.Int).Div(a.lo, p), new(big.Int).Div(a.hi, p)))
		}
	case term.OpBvAshr:
		if !x.Args[1].IsConst() {
			return fmt.Errorf("integer back end: shift by a symbolic amount")
		}
		k := int(x.Args[1].Val)
		if k >= w {
			k = w - 1
		}
		sv, slo, shi := s.signedExpr(x.Args[0])
		p := pow2(k)
		fl := func(v *big.Int) *big.Int { // floor division
			q, m := new(big.Int).DivMod(v, p, new(big.Int))
			_ = m
			return q
		}
		e, ii := wrap(fmt.Sprintf("(div %s %s)", sv, p), fl(slo), fl(shi), w)
		def(e, ii)
	case term.OpZext:
		ra, a := arg(0)
		def(ra, a)
	case term.OpSext:
		sv, slo, shi := s.signedExpr(x.Args[0])
		e, ii := wrap(sv, slo, shi, w)
		def(e, ii)
	case term.OpExtract:
		ra, a := arg(0)
		n := x.P - x.Q + 1
		pn := pow2(n)
		expr := ra
		lo, hi := a.lo, a.hi
		if x.Q > 0 {
			pq := pow2(x.Q)
			expr = fmt.Sprintf("(div %s %s)", ra, pq)
			lo, hi = new(big.Int).Div(a.lo, pq), new(big.Int).Div(a.hi, pq)
		}
		if hi.Cmp(pn) < 0 {
			def(expr, ii2(lo, hi))
		} else {
			def(fmt.Sprintf("(mod %s %s)", expr, pn), ii2(bigZero, new(big.Int).Sub(pn, bigOne)))
		}
	case term.OpConcat:
		ra, a := arg(0)
		rb, b := arg(1)
		p := pow2(x.Args[1].S.W)
		def(fmt.Sprintf("(+ (* %s %s) %s)", p, ra, rb), ii2(new(big.Int).Add(new(big.Int).Mul(a.lo, p), b.lo), new(big.Int).Add(new(big.Int).Mul(a.hi, p), b.hi)))
	case term.OpBvUlt:
		defB("(< " + s.iref(x.Args[0]) + " " + s.iref(x.Args[1]) + ")")
	case term.OpBvUle:
		defB("(<= " + s.iref(x.Args[0]) + " " + s.iref(x.Args[1]) + ")")
	case term.OpBvSlt, term.OpBvSle:
		sa, _, _ := s.signedExpr(x.Args[0])
		sb, _, _ := s.signedExpr(x.Args[1])
		op := "<"
		if x.Op == term.OpBvSle {
			op = "<="
		}
		defB("(" + op + " " + sa + " " + sb + ")")
	default:
		return fmt.Errorf("integer back end: unsupported operation %s", x.OpName())
	}
	return nil
}

// bitsExpr renders, for a value below 2^w, the Bool expression of each of its w bits.
func bitsExpr(ref string, w int) []string {
	out := make([]string, w)
	for i := 0; i < w; i++ {
		if i == w-1 {
			out[i] = fmt.Sprintf("(>= %s %s)", ref, pow2(i))
		} else {
			out[i] = fmt.Sprintf("(>= (mod %s %s) %s)", ref, pow2(i+1), pow2(i))
		}
	}
	return out
}

func maxBig(a, b *big.Int) *big.Int {
	if a.Cmp(b) >= 0 {
		return a
	}
	return b
}

func minBig(a, b *big.Int) *big.Int {
	if a.Cmp(b) <= 0 {
		return a
	}
	return b
}

// smallBitWidth: widths up to this are decomposed into bits exactly.
const smallBitWidth = 16

// defineBitop renders and/or/xor: with a constant mask as arithmetic on contiguous fields;
// narrow values bit by bit (exact); wide symbolic values exactly where the operands provably
// cannot overlap, exactly-under-a-guard where one operand is a multiple of 2^j (the guard is the
// other being below 2^j), and otherwise as a sound over-approximation (a fresh value within
// the arithmetic bounds of the operation).
func (s *Solver) defineBitop(x *term.Term) error {
	w := x.S.W
	def := func(expr string, ii intInfo) {
		s.send(fmt.Sprintf("(define-fun t%d () Int %s)", x.ID, expr))
		if ii.tz > w {
			ii.tz = w
		}
		s.ints[x.ID] = ii
	}
	max := new(big.Int).Sub(pow2(w), bigOne)
	a0, a1 := x.Args[0], x.Args[1]
	if a0.IsConst() {
		a0, a1 = a1, a0
	}
	rv, v := s.iref(a0), s.iinfo(a0)
	if a1.IsConst() {
		cu := a1.Val
		switch x.Op {
		case term.OpBvAnd:
			e, ii := andConst(rv, v, cu, w)
			def(e, ii)
			return nil
		case term.OpBvOr:
			// v | c = (v & ^c) + c
			rn, n := andConst(rv, v, ^cu&max.Uint64(), w)
			c := new(big.Int).SetUint64(cu & max.Uint64())
			def(fmt.Sprintf("(+ %s %s)", rn, c), intInfo{lo: new(big.Int).Add(n.lo, c), hi: new(big.Int).Add(n.hi, c), tz: min(n.tz, s.iinfo(a1).tz)})
			return nil
		case term.OpBvXor:
			// v ^ c = (v & ^c) + (c - (v & c))
			rn, n := andConst(rv, v, ^cu&max.Uint64(), w)
			rp, pi := andConst(rv, v, cu&max.Uint64(), w)
			c := new(big.Int).SetUint64(cu & max.Uint64())
			def(fmt.Sprintf("(+ %s (- %s %s))", rn, c, rp), intInfo{lo: new(big.Int).Add(n.lo, new(big.Int).Sub(c, pi.hi)), hi: new(big.Int).Add(n.hi, new(big.Int).Sub(c, pi.lo))})
			return nil
		}
	}
	ra, a := s.iref(x.Args[0]), s.iinfo(x.Args[0])
	rb, b := s.iref(x.Args[1]), s.iinfo(x.Args[1])
	if w <= smallBitWidth {
		ba, bb := bitsExpr(ra, w), bitsExpr(rb, w)
		parts := make([]string, w)
		for i := 0; i < w; i++ {
			var c string
			switch x.Op {
			case term.OpBvAnd:
				c = "(and " + ba[i] + " " + bb[i] + ")"
			case term.OpBvOr:
				c = "(or " + ba[i] + " " + bb[i] + ")"
			default:
				c = "(xor " + ba[i] + " " + bb[i] + ")"
			}
			parts[i] = fmt.Sprintf("(ite %s %s 0)", c, pow2(i))
		}
		hi := max
		if x.Op == term.OpBvAnd {
			hi = minBig(a.hi, b.hi)
		}
		def("(+ "+strings.Join(parts, " ")+")", intInfo{lo: bigZero, hi: hi, tz: min(a.tz, b.tz)})
		return nil
	}
	// wide values
	noOverlap := func(small, big_ intInfo) bool { return big_.tz > 0 && small.hi.Cmp(pow2(big_.tz)) < 0 }
	switch x.Op {
	case term.OpBvOr, term.OpBvXor:
		sum := "(+ " + ra + " " + rb + ")"
		slo, shi := new(big.Int).Add(a.lo, b.lo), new(big.Int).Add(a.hi, b.hi)
		if noOverlap(a, b) || noOverlap(b, a) {
			e, ii := wrap(sum, slo, shi, w)
			ii.tz = min(a.tz, b.tz)
			def(e, ii)
			return nil
		}
		// approximation: or: max(a,b) <= r <= a+b; xor: 0 <= r <= a+b; exact under the no-overlap guard
		s.send(fmt.Sprintf("(declare-const t%d_raw Int)", x.ID))
		raw := fmt.Sprintf("t%d_raw", x.ID)
		lower := "0"
		if x.Op == term.OpBvOr {
			lower = fmt.Sprintf("(ite (>= %s %s) %s %s)", ra, rb, ra, rb)
		}
		approx := fmt.Sprintf("(ite (and (<= %s %s) (<= %s %s) (<= %s %s)) %s %s)", lower, raw, raw, sum, raw, max, raw, lower)
		if x.Op == term.OpBvXor {
			approx = fmt.Sprintf("(ite (and (<= 0 %s) (<= %s %s) (<= %s %s)) %s 0)", raw, raw, sum, raw, max, raw)
		}
		expr := approx
		if b.tz > 0 && b.tz < w {
			expr = fmt.Sprintf("(ite (< %s %s) %s %s)", ra, pow2(b.tz), sum, expr)
		}
		if a.tz > 0 && a.tz < w {
			expr = fmt.Sprintf("(ite (< %s %s) %s %s)", rb, pow2(a.tz), sum, expr)
		}
		s.Approx = true
		s.approx[x.ID] = true
		def(expr, intInfo{lo: bigZero, hi: minBig(shi, max), tz: min(a.tz, b.tz)})
		return nil
	}
	// and of two wide symbolic values
	if noOverlap(a, b) || noOverlap(b, a) {
		def("0", intInfo{lo: bigZero, hi: bigZero, tz: w})
		return nil
	}
	s.send(fmt.Sprintf("(declare-const t%d_raw Int)", x.ID))
	raw := fmt.Sprintf("t%d_raw", x.ID)
	expr := fmt.Sprintf("(ite (and (<= 0 %s) (<= %s %s) (<= %s %s)) %s 0)", raw, raw, ra, raw, rb, raw)
	if b.tz > 0 && b.tz < w {
		expr = fmt.Sprintf("(ite (< %s %s) 0 %s)", ra, pow2(b.tz), expr)
	}
	if a.tz > 0 && a.tz < w {
		expr = fmt.Sprintf("(ite (< %s %s) 0 %s)", rb, pow2(a.tz), expr)
	}
	s.Approx = true
	s.approx[x.ID] = true
	def(expr, intInfo{lo: bigZero, hi: minBig(a.hi, b.hi), tz: maxInt(a.tz, b.tz)})
	return nil
}

func maxInt(a, b int) int {
	if a > b {
		return a
	}
	return b
}

// andConst renders v & mask as the sum over the contiguous runs of the mask.
func andConst(rv string, v intInfo, cu uint64, w int) (string, intInfo) {
	var parts []string
	hi := new(big.Int)
	tz := -1
	for j := 0; j < w; {
		if cu>>uint(j)&1 == 0 {
			j++
			continue
		}
		k := 0
		for j+k < w && cu>>uint(j+k)&1 == 1 {
			k++
		}
		if tz < 0 {
			tz = j
		}
		pj, pk := pow2(j), pow2(k)
		if v.hi.Cmp(pj) >= 0 {
			var e string
			switch {
			case j == 0 && v.hi.Cmp(pk) < 0:
				e = rv
			case j == 0:
				e = fmt.Sprintf("(mod %s %s)", rv, pk)
			case j+k >= w || v.hi.Cmp(pow2(j+k)) < 0:
				e = fmt.Sprintf("(* %s (div %s %s))", pj, rv, pj)
			default:
				e = fmt.Sprintf("(* %s (mod (div %s %s) %s))", pj, rv, pj, pk)
			}
			parts = append(parts, e)
			hi.Add(hi, new(big.Int).Mul(pj, new(big.Int).Sub(pk, bigOne)))
		}
		j += k
	}
	if tz < 0 {
		tz = w
	}
	if v.tz > tz {
		tz = v.tz
	}
	hi = minBig(hi, v.hi)
	switch len(parts) {
	case 0:
		return "0", intInfo{lo: bigZero, hi: bigZero, tz: w}
	case 1:
		return parts[0], intInfo{lo: bigZero, hi: hi, tz: tz}
	}
	return "(+ " + strings.Join(parts, " ") + ")", intInfo{lo: bigZero, hi: hi, tz: tz}
}
