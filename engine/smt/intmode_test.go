package smt

import (
	"fmt"
	"math/rand"
	"os"
	"testing"

	"gosym/term"
)

// Differential validation of the integer rendering: random terms over a few variables are
// evaluated concretely (term.Eval, bit-vector semantics) and the integer back end must agree:
// vars=assignment ∧ t=expected is sat, and (unless the term was over-approximated) t≠expected is unsat.

type gen struct {
	ts   *term.Store
	r    *rand.Rand
	vars map[int][]*term.Term
}

func (g *gen) konst(w int) *term.Term {
	switch g.r.Intn(6) {
	case 0:
		return g.ts.Const(w, uint64(g.r.Intn(4)))
	case 1:
		return g.ts.Const(w, uint64(1)<<uint(g.r.Intn(w)))
	case 2:
		return g.ts.Const(w, (uint64(1)<<uint(g.r.Intn(w)))-1)
	case 3:
		return g.ts.Const(w, ^uint64(0)<<uint(g.r.Intn(w)))
	case 4:
		return g.ts.Const(w, []uint64{1000, 1000000, 1000000000, 60000, 60000000000, 7, 10}[g.r.Intn(7)])
	}
	return g.ts.Const(w, g.r.Uint64())
}

func (g *gen) bv(w, depth int) *term.Term {
	if depth == 0 || g.r.Intn(5) == 0 {
		if g.r.Intn(3) == 0 {
			return g.konst(w)
		}
		vs := g.vars[w]
		return vs[g.r.Intn(len(vs))]
	}
	a := g.bv(w, depth-1)
	switch g.r.Intn(20) {
	case 0:
		return g.ts.Add(a, g.bv(w, depth-1))
	case 1:
		return g.ts.Sub(a, g.bv(w, depth-1))
	case 2:
		return g.ts.Mul(a, g.konst(w))
	case 3:
		c := g.konst(w)
		if c.Val == 0 {
			return a
		}
		return []func(x, y *term.Term) *term.Term{g.ts.UDiv, g.ts.URem, g.ts.SDiv, g.ts.SRem}[g.r.Intn(4)](a, c)
	case 4:
		return g.ts.BAnd(a, g.konst(w))
	case 5:
		return g.ts.BOr(a, g.konst(w))
	case 6:
		return g.ts.BXor(a, g.konst(w))
	case 7:
		return g.ts.BAnd(a, g.bv(w, depth-1))
	case 8:
		return g.ts.BOr(a, g.bv(w, depth-1))
	case 9:
		return g.ts.BXor(a, g.bv(w, depth-1))
	case 10:
		return []func(x, y *term.Term) *term.Term{g.ts.Shl, g.ts.Lshr, g.ts.Ashr}[g.r.Intn(3)](a, g.ts.Const(w, uint64(g.r.Intn(w+2))))
	case 11:
		return []func(x, y *term.Term) *term.Term{g.ts.Shl, g.ts.Lshr}[g.r.Intn(2)](a, g.ts.BAnd(g.bv(w, depth-1), g.ts.Const(w, 15)))
	case 12:
		return g.ts.BNot(a)
	case 13:
		return g.ts.Neg(a)
	case 14:
		ws := []int{8, 32, 64}
		w2 := ws[g.r.Intn(3)]
		return g.ts.Resize(g.bv(w2, depth-1), w, g.r.Intn(2) == 0)
	case 15:
		return g.ts.Ite(g.cond(depth-1), a, g.bv(w, depth-1))
	case 16:
		// field insertion as in package time: (a &^ mask) | small
		return g.ts.BOr(g.ts.BAnd(a, g.ts.Const(w, ^uint64(0xff))), g.ts.BAnd(g.bv(w, depth-1), g.ts.Const(w, 0x7f)))
	case 17:
		return g.ts.Shl(g.ts.Const(w, 1), g.ts.BAnd(a, g.ts.Const(w, 7)))
	}
	return a
}

func (g *gen) cond(depth int) *term.Term {
	ws := []int{8, 32, 64}
	w := ws[g.r.Intn(3)]
	a, b := g.bv(w, depth), g.bv(w, depth)
	switch g.r.Intn(5) {
	case 0:
		return g.ts.Eq(a, b)
	case 1:
		return g.ts.Ult(a, b)
	case 2:
		return g.ts.Ule(a, b)
	case 3:
		return g.ts.Slt(a, b)
	}
	return g.ts.Sle(a, b)
}

func TestIntModeDifferential(t *testing.T) {
	kind := os.Getenv("INTMODE_SOLVER")
	if kind == "" {
		kind = "cvc5"
	}
	n := 400
	if os.Getenv("INTMODE_N") != "" {
		fmt.Sscan(os.Getenv("INTMODE_N"), &n)
	}
	ts := term.NewStore()
	g := &gen{ts: ts, r: rand.New(rand.NewSource(7)), vars: map[int][]*term.Term{}}
	var all []*term.Term
	for _, w := range []int{8, 32, 64} {
		for i := 0; i < 2; i++ {
			v := ts.Var(fmt.Sprintf("v%d_%d", w, i), term.BV(w))
			g.vars[w] = append(g.vars[w], v)
			all = append(all, v)
		}
	}
	s, err := New(kind+"-int", 20000)
	if err != nil {
		t.Fatal(err)
	}
	defer s.Close()
	approx, exact, skipped, unknown := 0, 0, 0, 0
	for i := 0; i < n; i++ {
		w := []int{8, 32, 64}[g.r.Intn(3)]
		x := g.bv(w, 1+g.r.Intn(4))
		if x.IsConst() {
			continue
		}
		env := map[int]uint64{}
		var fix []*term.Term
		for _, v := range all {
			val := g.r.Uint64()
			switch g.r.Intn(4) {
			case 0:
				val = uint64(g.r.Intn(300))
			case 1:
				val = ^uint64(g.r.Intn(300))
			}
			val &= ^uint64(0) >> uint(64-v.S.W)
			env[v.ID] = val
			fix = append(fix, ts.Eq(v, ts.Const(v.S.W, val)))
		}
		want, ok := term.Eval(x, env, map[int]uint64{})
		if !ok {
			t.Fatalf("eval failed for %s", x.Body())
		}
		s.Approx = false
		s.broken = nil
		eq := ts.Eq(x, ts.Const(w, want))
		r, err := s.Check(append(append([]*term.Term(nil), fix...), eq))
		if err != nil {
			skipped++
			continue
		}
		if r == Sat {
			s.Pop()
		}
		if r == Unknown {
			unknown++
			continue
		}
		if r != Sat {
			t.Errorf("term %d (w=%d): t == expected %#x is %v, want sat\n  %s", i, w, want, r, dump(x))
			continue
		}
		if s.IsApprox(x) {
			approx++
			continue
		}
		r, err = s.Check(append(append([]*term.Term(nil), fix...), ts.Not(eq)))
		if err != nil {
			t.Errorf("term %d: %v", i, err)
			continue
		}
		if r == Sat {
			s.Pop()
		}
		if r != Unsat {
			t.Errorf("term %d (w=%d): t != expected %#x is %v, want unsat\n  %s", i, w, want, r, dump(x))
			continue
		}
		exact++
	}
	t.Logf("solver %s: %d exact, %d over-approximated, %d not renderable, %d unknown", kind, exact, approx, skipped, unknown)
	if exact < n/3 {
		t.Errorf("too few exact terms: %d", exact)
	}
}

func dump(x *term.Term) string {
	seen := map[int]bool{}
	var out string
	var rec func(t *term.Term)
	rec = func(t *term.Term) {
		if seen[t.ID] || t.Op == term.OpConst || t.Op == term.OpVar {
			return
		}
		seen[t.ID] = true
		for _, a := range t.Args {
			rec(a)
		}
		out += fmt.Sprintf("t%d := %s\n  ", t.ID, t.Body())
	}
	rec(x)
	return out
}
