// Package smt: one long-lived solver process spoken to in SMT-LIB2.
package smt

import (
	"bufio"
	"fmt"
	"io"
	"os/exec"
	"strconv"
	"strings"
	"time"

	"gosym/term"
)

type Result int

const (
	Unsat Result = iota
	Sat
	Unknown
)

func (r Result) String() string { return [...]string{"unsat", "sat", "unknown"}[r] }

type Solver struct {
	Kind    string
	cmd     *exec.Cmd
	in      *bufio.Writer
	inc     io.WriteCloser
	out     *bufio.Reader
	defined map[int]bool
	Queries int
	NSat    int
	NUnsat  int
	NUnk    int
	Errors  int
	Time    time.Duration
	Log     io.Writer
	LastErr string
	WaitTime time.Duration // total time blocked reading solver answers (checks, models, values)
	IntMode  bool               // render bit-vectors as integers (see intmode.go)
	ints     map[int]intInfo
	approx   map[int]bool // terms whose rendering is an over-approximation (directly or through a sub-term)
	Approx   bool  // some term was rendered as an over-approximation: 'unsat' is still sound, 'sat' needs replay
	broken   error // a term could not be rendered: every later query is inconclusive
	stack   []int // ids of the path-condition nodes asserted, one push level each
}

// New starts a solver. kind: z3 | z3-new | cvc5. timeoutMs is the per-query limit.
func New(kind string, timeoutMs int) (*Solver, error) {
	var cmd *exec.Cmd
	intMode := false
	if strings.HasSuffix(kind, "-int") {
		intMode = true
		kind = strings.TrimSuffix(kind, "-int")
	}
	switch kind {
	case "z3", "z3-new":
		cmd = exec.Command(kind, "-in", fmt.Sprintf("-t:%d", timeoutMs))
	case "cvc5":
		cmd = exec.Command("cvc5", "--incremental", "--lang=smt2", fmt.Sprintf("--tlimit-per=%d", timeoutMs))
	default:
		return nil, fmt.Errorf("unknown solver %q", kind)
	}
	in, err := cmd.StdinPipe()
	if err != nil {
		return nil, err
	}
	out, err := cmd.StdoutPipe()
	if err != nil {
		return nil, err
	}
	cmd.Stderr = cmd.Stdout
	if err := cmd.Start(); err != nil {
		return nil, err
	}
	s := &Solver{IntMode: intMode, ints: map[int]intInfo{}, approx: map[int]bool{}, Kind: kind, cmd: cmd, inc: in, in: bufio.NewWriterSize(in, 1<<16), out: bufio.NewReaderSize(out, 1<<16), defined: map[int]bool{}}
	if kind == "cvc5" {
		s.send("(set-logic ALL)")
	}
	s.send("(set-option :produce-models true)")
	s.send("(set-option :global-declarations true)")
	return s, nil
}

func (s *Solver) send(line string) {
	if s.Log != nil {
		fmt.Fprintln(s.Log, line)
	}
	s.in.WriteString(line)
	s.in.WriteByte('\n')
}

func (s *Solver) Close() {
	s.send("(exit)")
	s.in.Flush()
	s.inc.Close()
	done := make(chan struct{})
	go func() { s.cmd.Wait(); close(done) }()
	select {
	case <-done:
	case <-time.After(2 * time.Second):
		s.cmd.Process.Kill()
	}
}

// define emits declarations/definitions for t and its sub-terms (post-order).
func (s *Solver) define(t *term.Term) {
	if s.defined[t.ID] {
		return
	}
	type fr struct {
		t *term.Term
		i int
	}
	st := []fr{{t, 0}}
	for len(st) > 0 {
		top := &st[len(st)-1]
		if s.defined[top.t.ID] {
			st = st[:len(st)-1]
			continue
		}
		if top.i < len(top.t.Args) {
			a := top.t.Args[top.i]
			top.i++
			if !s.defined[a.ID] {
				st = append(st, fr{a, 0})
			}
			continue
		}
		x := top.t
		if s.IntMode {
			if err := s.defineIntTerm(x); err != nil && s.broken == nil {
				s.broken = err
			}
			for _, a := range x.Args {
				if s.approx[a.ID] {
					s.approx[x.ID] = true
				}
			}
			s.defined[x.ID] = true
			st = st[:len(st)-1]
			continue
		}
		switch x.Op {
		case term.OpConst:
		case term.OpVar:
			s.send(fmt.Sprintf("(declare-const %s %s)", x.Name, x.S.SMT()))
		default:
			s.send(fmt.Sprintf("(define-fun %s () %s %s)", x.Ref(), x.S.SMT(), x.Body()))
		}
		s.defined[x.ID] = true
		st = st[:len(st)-1]
	}
}

// Check decides satisfiability of the conjunction.  After a Sat answer the
// frame stays open so that Model can be called; the caller must then call
// Pop (Model does it itself).
func (s *Solver) Check(conj []*term.Term) (Result, error) {
	for _, c := range conj {
		s.define(c)
	}
	if s.broken != nil {
		s.Errors++
		s.LastErr = s.broken.Error()
		return Unknown, s.broken
	}
	t0 := time.Now()
	if len(s.stack) > 0 {
		s.send(fmt.Sprintf("(pop %d)", len(s.stack)))
		s.stack = s.stack[:0]
	}
	s.send("(push 1)")
	for _, c := range conj {
		s.send("(assert " + c.Ref() + ")")
	}
	s.send("(check-sat)")
	s.in.Flush()
	line, err := s.readLine()
	s.Queries++
	s.Time += time.Since(t0)
	if err != nil {
		return Unknown, err
	}
	switch line {
	case "sat":
		s.NSat++
		return Sat, nil
	case "unsat":
		s.NUnsat++
		s.send("(pop 1)")
		return Unsat, nil
	case "unknown", "timeout":
		s.NUnk++
		s.send("(pop 1)")
		return Unknown, nil
	}
	s.Errors++
	s.LastErr = line
	s.send("(pop 1)")
	return Unknown, fmt.Errorf("solver said: %q", line)
}

func (s *Solver) readLine() (string, error) {
	t0 := time.Now()
	defer func() { s.WaitTime += time.Since(t0) }()
	for {
		l, err := s.out.ReadString('\n')
		if err != nil {
			return "", err
		}
		l = strings.TrimSpace(l)
		if l == "" {
			continue
		}
		// balance parentheses for multi-line answers
		for strings.Count(l, "(") > strings.Count(l, ")") {
			m, err := s.out.ReadString('\n')
			if err != nil {
				return "", err
			}
			l += " " + strings.TrimSpace(m)
		}
		return l, nil
	}
}

// Model must be called right after a Sat result; it pops afterwards.
func (s *Solver) Model(vars []*term.Term) (map[string]uint64, error) {
	defer s.send("(pop 1)")
	ids, err := s.ModelIDs(vars)
	if err != nil {
		return nil, err
	}
	m := map[string]uint64{}
	for _, v := range vars {
		if u, ok := ids[v.ID]; ok {
			m[v.Name] = u
		}
	}
	return m, nil
}

// Pop discards the frame left open by a Sat answer.
func (s *Solver) Pop() { s.send("(pop 1)") }

// Value returns the model value of a BV/Bool term after a Sat answer (frame stays open).
func (s *Solver) Value(t *term.Term) (uint64, error) {
	if !s.defined[t.ID] && t.Op != term.OpConst {
		return 0, fmt.Errorf("Value: term must be defined before check-sat")
	}
	if s.Kind == "z3" || s.Kind == "z3-new" {
		s.send("(eval " + s.refOf(t) + " :completion true)")
		s.in.Flush()
		l, err := s.readLine()
		if err != nil {
			return 0, err
		}
		return parseVal(l)
	}
	s.send("(get-value (" + s.refOf(t) + "))")
	s.in.Flush()
	l, err := s.readLine()
	if err != nil {
		return 0, err
	}
	if strings.HasPrefix(l, "(error") {
		return 0, fmt.Errorf("get-value: %s", l)
	}
	l = strings.TrimSuffix(strings.TrimPrefix(l, "(("), "))")
	i := strings.LastIndex(l, " #")
	if i < 0 {
		if strings.HasSuffix(l, " true") {
			return 1, nil
		}
		if strings.HasSuffix(l, " false") {
			return 0, nil
		}
		if j := strings.LastIndex(l, " "); j >= 0 {
			if u, err := parseVal(l[j+1:]); err == nil {
				return u, nil
			}
		}
		return 0, fmt.Errorf("bad get-value: %q", l)
	}
	val := l[i+1:]
	if strings.HasPrefix(val, "#x") {
		return strconv.ParseUint(val[2:], 16, 64)
	}
	return strconv.ParseUint(val[2:], 2, 64)
}

// PCItem is one conjunct of a path condition with a stable identity.
type PCItem struct {
	ID int
	C  *term.Term
}

// CheckInc decides pc ∧ extra keeping the pc asserted incrementally: the solver's
// assertion stack mirrors the path condition, and only the part that differs from the
// previous query is popped / pushed.
func (s *Solver) CheckInc(pc []PCItem, extra []*term.Term) (Result, error) {
	for _, c := range pc {
		s.define(c.C)
	}
	for _, c := range extra {
		s.define(c)
	}
	if s.broken != nil {
		s.Errors++
		s.LastErr = s.broken.Error()
		return Unknown, s.broken
	}
	t0 := time.Now()
	common := 0
	for common < len(pc) && common < len(s.stack) && s.stack[common] == pc[common].ID {
		common++
	}
	if n := len(s.stack) - common; n > 0 {
		s.send(fmt.Sprintf("(pop %d)", n))
		s.stack = s.stack[:common]
	}
	for _, c := range pc[common:] {
		s.send("(push 1)")
		s.send("(assert " + c.C.Ref() + ")")
		s.stack = append(s.stack, c.ID)
	}
	s.send("(push 1)")
	for _, c := range extra {
		s.send("(assert " + c.Ref() + ")")
	}
	s.send("(check-sat)")
	s.in.Flush()
	line, err := s.readLine()
	s.Queries++
	s.Time += time.Since(t0)
	if err != nil {
		return Unknown, err
	}
	switch line {
	case "sat":
		s.NSat++
		return Sat, nil
	case "unsat":
		s.NUnsat++
		s.send("(pop 1)")
		return Unsat, nil
	case "unknown", "timeout":
		s.NUnk++
		s.send("(pop 1)")
		return Unknown, nil
	}
	s.Errors++
	s.LastErr = line
	s.send("(pop 1)")
	return Unknown, fmt.Errorf("solver said: %q", line)
}

// Define makes t known to the solver (must happen before the check-sat whose model is read).
func (s *Solver) Define(t *term.Term) { s.define(t) }

// IsApprox reports whether t (already defined) was rendered as an over-approximation.
func (s *Solver) IsApprox(t *term.Term) bool { return s.approx[t.ID] }

// ModelIDs reads the values of vars (after a Sat answer, frame stays open) in one round trip;
// the result maps term IDs to values.
func (s *Solver) ModelIDs(vars []*term.Term) (map[int]uint64, error) {
	m := map[int]uint64{}
	var names []string
	var used []*term.Term
	for _, v := range vars {
		if s.defined[v.ID] {
			names = append(names, v.Name)
			used = append(used, v)
		}
	}
	if len(names) == 0 {
		return m, nil
	}
	if s.Kind == "z3" || s.Kind == "z3-new" {
		// z3's get-value is slow on large incremental contexts (~40 ms); (eval x) is not
		for _, n := range names {
			s.send("(eval " + n + " :completion true)")
		}
		s.in.Flush()
		for _, v := range used {
			l, err := s.readLine()
			if err != nil {
				return nil, err
			}
			u, err := parseVal(l)
			if err != nil {
				return nil, err
			}
			m[v.ID] = u
		}
		return m, nil
	}
	s.send("(get-value (" + strings.Join(names, " ") + "))")
	s.in.Flush()
	l, err := s.readLine()
	if err != nil {
		return nil, err
	}
	if strings.HasPrefix(l, "(error") {
		return nil, fmt.Errorf("get-value: %s", l)
	}
	// ((n1 v1) (n2 v2) ...)
	l = strings.TrimSpace(l)
	l = strings.TrimPrefix(l, "(")
	l = strings.TrimSuffix(l, ")")
	i := 0
	for _, v := range used {
		j := strings.Index(l[i:], "("+v.Name+" ")
		if j < 0 {
			return nil, fmt.Errorf("get-value: %s missing in %q", v.Name, l)
		}
		st := i + j + len(v.Name) + 2
		depth, k := 0, st
		for ; k < len(l); k++ {
			if l[k] == '(' {
				depth++
			} else if l[k] == ')' {
				if depth == 0 {
					break
				}
				depth--
			}
		}
		val := strings.TrimSpace(l[st:k])
		i = k
		u, perr := parseVal(val)
		if perr != nil {
			return nil, fmt.Errorf("bad value %q for %s", val, v.Name)
		}
		m[v.ID] = u
	}
	return m, nil
}

func parseVal(val string) (uint64, error) {
	val = strings.TrimSpace(val)
	switch {
	case val == "true":
		return 1, nil
	case val == "false":
		return 0, nil
	case strings.HasPrefix(val, "#x"):
		return strconv.ParseUint(val[2:], 16, 64)
	case strings.HasPrefix(val, "#b"):
		return strconv.ParseUint(val[2:], 2, 64)
	case strings.HasPrefix(val, "(_ bv"):
		f := strings.Fields(val)
		return strconv.ParseUint(strings.TrimPrefix(f[1], "bv"), 10, 64)
	case len(val) > 0 && val[0] >= '0' && val[0] <= '9':
		return strconv.ParseUint(val, 10, 64)
	}
	return 0, fmt.Errorf("bad value %q", val)
}

func (s *Solver) refOf(t *term.Term) string {
	if s.IntMode {
		return s.iref(t)
	}
	return t.Ref()
}
