package main

import (
	"encoding/json"
	"fmt"
	"os"
	"path/filepath"
	"sort"
)

type evidence struct {
	prop, tier string
	seed       int
	harnesses  []map[string]any
	paths      int
	forks      int
	assertQ    int
	queries    int
	nunsat     int
	nsat       int
	nunk       int
	soltime    float64
	validated  int
	violations int
	wall       float64
	samples    []any
	assumptions []string
	funcs      map[string]bool
	knownSeen  []string
	exhaustive bool
	partial    bool // -only was given
}

func newEvidence(prop, tier string, seed int) *evidence {
	return &evidence{prop: prop, tier: tier, seed: seed, funcs: map[string]bool{}, exhaustive: true}
}

func (e *evidence) addHarness(h *Harness, hr *harnessResult, tier string) {
	fns := make([]string, 0, len(hr.funcs))
	for f := range hr.funcs {
		fns = append(fns, f)
		e.funcs[f] = true
	}
	sort.Strings(fns)
	var fl []map[string]any
	for _, f := range hr.findings {
		fl = append(fl, map[string]any{"signature": f.sig, "paths": f.count})
	}
	rw := []map[string]string{}
	for _, r := range h.Rewrites {
		rw = append(rw, map[string]string{"file": r.File, "old": r.Old, "new": r.New, "why": r.Why})
	}
	m := map[string]any{
		"name": h.Name, "entry": h.Pkg + "." + h.Entry, "claim": h.Claim, "bounds": hr.params, "outside_the_claim": h.Outside,
		"solver": hr.solver, "jobs": hr.jobs, "shape_prefixes": hr.shapes,
		"paths": hr.st.Paths, "paths_done": hr.st.Done, "paths_pruned_by_assume": hr.st.AssumeFalse, "paths_panicked": hr.st.Panicked,
		"paths_fatal": hr.st.Fatal, "paths_deadlock": hr.st.Deadlock, "paths_bound": hr.st.Bound, "paths_unsupported": hr.st.Unsupported,
		"forks": hr.st.Forks, "ssa_steps": hr.st.Steps,
		"assertions_checked": hr.st.AssertChecks, "assertion_queries": hr.st.AssertQueries, "assertions_failed": hr.st.AssertFail,
		"assertions_undecided": hr.st.AssertUnknown, "branch_feasibility_undecided_branch_kept": hr.st.FeasUnknown,
		"queries": map[string]any{"total": hr.queries, "unsat": hr.nunsat, "sat": hr.nsat, "unknown": hr.nunk, "error_lines": hr.nerr},
		"solver_time_s": hr.soltime.Seconds(), "wall_s": hr.wall, "reach": hr.st.Reach, "notes": hr.st.Notes,
		"functions_encoded": fns, "rewrites": rw, "findings": fl, "infra": hr.infra, "smt_terms": hr.terms,
		"preinit": h.Preinit,
	}
	e.harnesses = append(e.harnesses, m)
	e.paths += hr.st.Paths
	e.forks += hr.st.Forks
	e.assertQ += hr.st.AssertQueries
	e.queries += hr.queries
	e.nunsat += hr.nunsat
	e.nsat += hr.nsat
	e.nunk += hr.nunk
	e.soltime += hr.soltime.Seconds()
	for _, s := range hr.samples {
		if len(e.samples) < 8 {
			e.samples = append(e.samples, map[string]any{"harness": h.Name, "path": s})
		}
	}
	for _, a := range h.Assumptions {
		e.assumptions = append(e.assumptions, h.Name+": "+a)
	}
	if hr.infra != "" || hr.st.Bound > 0 || hr.st.Unsupported > 0 {
		e.exhaustive = false
	}
}

func (e *evidence) write() error {
	if len(e.samples) == 0 {
		e.samples = append(e.samples, "no completed path (see harnesses[].infra)")
	}
	fns := make([]string, 0, len(e.funcs))
	for f := range e.funcs {
		fns = append(fns, f)
	}
	sort.Strings(fns)
	states, trans := e.paths, e.forks
	if states < 1 {
		states = 1
	}
	if trans < 1 {
		trans = 1
	}
	doc := map[string]any{
		"property_id": e.prop, "tier": e.tier, "seed": e.seed, "level": "model_checking",
		"coverage": map[string]any{
			"states": states, "transitions": trans, "traces_validated_against_impl": e.validated,
			"samples":     e.samples,
			"exhaustive":  e.exhaustive,
			"explanation": "bounded symbolic execution of the real Go code (go/ssa -> SMT-LIB2): states = explored paths, transitions = forks (branch decisions with both sides feasible); every assertion is decided by the solver for all values of the symbolic inputs inside the listed bounds; traces_validated = solver models of completed paths replayed against the natively compiled code",
			"harnesses":   e.harnesses,
			"queries":     map[string]any{"total": e.queries, "assertion": e.assertQ, "unsat": e.nunsat, "sat": e.nsat, "unknown": e.nunk},
			"solver_time_s":       e.soltime,
			"functions_encoded_n": len(fns),
			"known_findings_seen": e.knownSeen,
		},
		"assumptions": append([]string{
			"go/ssa lowering and the gosym interpreter's semantics of SSA instructions and intrinsics (sync, atomic, fmt, unicode tables) are faithful; validated on sampled paths by native replay",
			"logging, metrics and tracing calls are no-ops; context carries no cancellation or deadline",
			"result holds only inside the bounds listed per harness; everything listed under outside_the_claim is not covered",
		}, e.assumptions...),
		"wall_s": e.wall, "violations": e.violations,
	}
	b, err := json.MarshalIndent(doc, "", " ")
	if err != nil {
		return err
	}
	dir := filepath.Join(verifDir, "evidence")
	if e.partial || (e.tier != "quick" && e.tier != "thorough") {
		// a development run (one harness only, or a non-registered tier) must not replace the
		// evidence of the registered check
		dir = filepath.Join(dir, "dev")
	}
	os.MkdirAll(dir, 0o755)
	return os.WriteFile(filepath.Join(dir, fmt.Sprintf("%s.json", e.prop)), b, 0o644)
}
