// vcheck: driver of the gosym bounded symbolic checker for /repo.
package main

import (
	"encoding/json"
	"flag"
	"fmt"
	"os"
	"os/exec"
	"path/filepath"
	"regexp"
	"runtime"
	"runtime/pprof"
	"sort"
	"strconv"
	"strings"
	"sync"
	"time"

	"golang.org/x/tools/go/packages"
	"golang.org/x/tools/go/ssa"
	"golang.org/x/tools/go/ssa/ssautil"

	"gosym/interp"
	"gosym/smt"
)

const repoMod = "github.com/ozontech/seq-db"

type Rewrite struct {
	File string `json:"file"`
	Old  string `json:"old"`
	New  string `json:"new"`
	All  bool   `json:"all,omitempty"`
	Why  string `json:"why,omitempty"`
}

type Harness struct {
	Name          string                    `json:"name"`
	Pkg           string                    `json:"pkg"` // directory relative to /repo
	Entry         string                    `json:"entry"`
	Files         []string                  `json:"files"` // files in the harness dir: <pkgdir with _ for />__name.go
	Preinit       []string                  `json:"preinit"`
	DiscoverDepth int                       `json:"discover_depth"`
	Params        map[string]map[string]int `json:"params"` // tier -> name -> value
	Reach         []string                  `json:"reach"`
	Solver        string                    `json:"solver"`
	TimeoutMs     map[string]int            `json:"timeout_ms"`
	MaxSteps      int                       `json:"max_steps"`
	PanicOK       bool                      `json:"panic_ok"`
	KeepFuncs     []string                  `json:"keep_funcs"` // functions of black-holed packages that are executed nevertheless (name prefixes)
	PreemptAtSync bool                      `json:"preempt_at_sync"` // explore a context switch before every mutex Lock/RLock
	Rewrites      []Rewrite                 `json:"rewrites"`
	Redirect      map[string]string         `json:"redirect"`
	Blackhole     []string                  `json:"blackhole"`
	SkipFuncs     []string                  `json:"skip_funcs"`
	Models        []string                  `json:"models"` // opt-in engine models of library functions
	NoModelCache  bool                      `json:"no_model_cache"`
	Tiers         []string                  `json:"tiers"` // tiers in which the harness runs (default both)
	Claim         string                    `json:"claim"`
	Assumptions   []string                  `json:"assumptions"`
	Outside       []string                  `json:"outside"`
	ExtraPkgs     []string                  `json:"extra_pkgs"`
}

type Spec struct {
	Property  string    `json:"property"`
	Harnesses []Harness `json:"harnesses"`
}

type Known struct {
	Property string `json:"property"`
	Harness  string `json:"harness"`
	Match    string `json:"match"`
	Status   string `json:"status"` // open | fixed
	Commit   string `json:"commit,omitempty"`
	What     string `json:"what"`
}

var defaultBlackhole = []string{
	"go.uber.org/zap", "github.com/prometheus/", "go.opencensus.io", repoMod + "/logger", repoMod + "/metric",
	repoMod + "/tracing", "log", "runtime/debug", "runtime/pprof", "expvar", "os/signal", "go.uber.org/automaxprocs",
	"go.opentelemetry.io", "runtime", "github.com/KimMachineGun/automemlimit", "github.com/c2h5oh/datasize",
}

var defaultRedirect = map[string]string{
	"errors.Is":                         "ErrorsIs",
	"errors.Unwrap":                     "ErrorsUnwrap",
	"errors.As":                         "ErrorsAs",
	"internal/bytealg.IndexByte":        "IndexByte",
	"internal/bytealg.IndexByteString":  "IndexByteString",
	"internal/bytealg.CountString":      "CountString",
	"internal/bytealg.Count":            "Count",
	"internal/bytealg.Compare":          "Compare",
	"bytes.Compare":                     "Compare",
	"bytes.Equal":                       "EqualBytes",
	"bytes.IndexByte":                   "IndexByte",
	"strings.IndexByte":                 "IndexByteString",
	"strings.Compare":                   "CompareString",
	"internal/stringslite.Index":        "IndexString",
	"internal/stringslite.IndexByte":    "IndexByteString",
	"strings.Index":                     "IndexString",
	"bytes.Index":                       "Index",
	"internal/bytealg.Equal":            "EqualBytes",
	"sort.Slice":                        "SortSlice",
	"sort.SliceStable":                  "SortSlice",
	"unicode/utf8.DecodeRuneInString":   "DecodeRuneInString",
	"unicode/utf8.DecodeRune":           "DecodeRune",
	"internal/runtime/atomic.placeholder": "",
}

var (
	verifDir = "/verif"
	repoDir  = "/repo"
)

type jobResult struct {
	st       interp.Stats
	fails    []*interp.Failure
	prefixes [][]int
	samples  []string
	doneVecs [][]uint64
	queries  int
	nsat     int
	nunsat   int
	nunk     int
	nerr     int
	soltime  time.Duration
	funcs    map[string]bool
	terms    int
	lastErr  string
}

type finding struct {
	harness string
	sig     string
	kind    string
	label   string
	pos     string
	vectors [][]uint64
	count   int
	replay  string
	outcome string
	confirm bool
	known   *Known
}

func main() {
	prop := flag.String("p", "", "property id, e.g. C14")
	tier := flag.String("tier", "", "quick | thorough")
	replay := flag.String("replay", "", "replay file: run it natively and report")
	only := flag.String("only", "", "run only this harness")
	verbose := flag.Bool("v", false, "verbose")
	workers := flag.Int("j", 0, "parallel workers (default: cores)")
	prefix := flag.String("prefix", "", "debug: forced choices, comma separated")
	noReplay := flag.Bool("noreplay", false, "debug: do not confirm findings natively")
	flag.Parse()
	if d := os.Getenv("VERIF_DIR"); d != "" {
		verifDir = d
	}
	if d := os.Getenv("VERIF_REPO"); d != "" {
		repoDir = d
	}
	if *tier == "" {
		*tier = os.Getenv("VERIF_TIER")
	}
	if *tier == "" {
		*tier = "quick"
	}
	if *workers == 0 {
		*workers = runtime.NumCPU()
		if *workers > 16 {
			*workers = 16
		}
	}
	os.Setenv("GOFLAGS", "-mod=mod")
	os.Setenv("GOPROXY", "off")
	seed := 0
	if v := os.Getenv("VERIF_SEED"); v != "" {
		seed, _ = strconv.Atoi(v)
	}

	if *replay != "" {
		os.Exit(doReplayFile(*replay))
	}
	if *prop == "" {
		fmt.Fprintln(os.Stderr, "usage: vcheck -p <property> [-tier quick|thorough]")
		os.Exit(2)
	}
	if pf := os.Getenv("VERIF_CPUPROFILE"); pf != "" {
		f, _ := os.Create(pf)
		pprof.StartCPUProfile(f)
		defer pprof.StopCPUProfile()
	}
	t0 := time.Now()
	spec, err := loadSpec(*prop)
	if err != nil {
		fmt.Println("INFRA cannot load spec:", err)
		os.Exit(2)
	}
	known := loadKnown()
	scratch, err := os.MkdirTemp("", "vcheck-")
	if err != nil {
		fmt.Println("INFRA", err)
		os.Exit(2)
	}
	defer os.RemoveAll(scratch)

	ev := newEvidence(*prop, *tier, seed)
	exit := 0
	infra := false
	var allFindings []*finding
	for i := range spec.Harnesses {
		h := &spec.Harnesses[i]
		if *only != "" && h.Name != *only {
			continue
		}
		if len(h.Tiers) > 0 && !contains(h.Tiers, *tier) {
			continue
		}
		hr := runHarness(spec, h, *tier, *workers, *verbose, *prefix, scratch)
		ev.addHarness(h, hr, *tier)
		if hr.infra != "" {
			fmt.Printf("INFRA property=%s harness=%s %s\n", *prop, h.Name, hr.infra)
			infra = true
		}
		// findings: confirm natively, match against known list
		for _, f := range hr.findings {
			for ki := range known {
				k := &known[ki]
				if k.Property == *prop && (k.Harness == "" || k.Harness == h.Name) && strings.Contains(f.sig, k.Match) && k.Status == "open" {
					f.known = k
				}
			}
			if !*noReplay {
				confirmFinding(spec, h, f, *tier, scratch)
			} else {
				f.confirm = true
			}
			allFindings = append(allFindings, f)
		}
		if !*noReplay && hr.infra == "" && len(hr.doneVecs) > 0 {
			n, bad := validateDone(spec, h, hr.doneVecs, *tier, scratch)
			ev.validated += n
			if bad != "" {
				fmt.Printf("INFRA property=%s harness=%s encoder-validation: %s\n", *prop, h.Name, bad)
				infra = true
			}
		}
	}
	knownSeen := map[string]bool{}
	for _, f := range allFindings {
		switch {
		case !f.confirm:
			fmt.Printf("INFRA property=%s harness=%s counterexample not reproduced natively: %s (native outcome: %s) replay=%s\n", *prop, f.harness, f.sig, f.outcome, f.replay)
			infra = true
		case f.known != nil:
			if !knownSeen[f.known.Match] {
				fmt.Printf("KNOWN-FINDING: property=%s %s [%s; %d path(s); replay=%s]\n", *prop, f.known.What, f.sig, f.count, f.replay)
				knownSeen[f.known.Match] = true
			}
			ev.knownSeen = append(ev.knownSeen, f.sig)
		default:
			fmt.Printf("VIOLATION property=%s replay=%s\n", *prop, f.replay)
			fmt.Printf("  harness=%s %s (%d path(s)); native outcome: %s\n", f.harness, f.sig, f.count, f.outcome)
			ev.violations++
			exit = 1
		}
	}
	ev.wall = time.Since(t0).Seconds()
	ev.partial = *only != ""
	if err := ev.write(); err != nil {
		fmt.Println("INFRA cannot write evidence:", err)
		infra = true
	}
	if exit == 0 && infra {
		exit = 2
	}
	if exit == 0 {
		fmt.Printf("HELD property=%s tier=%s: %d harness(es), %d paths, %d assertion queries, %d solver queries (%d unsat, %d sat, %d unknown), solver %.1fs, wall %.1fs\n",
			*prop, *tier, len(ev.harnesses), ev.paths, ev.assertQ, ev.queries, ev.nunsat, ev.nsat, ev.nunk, ev.soltime, ev.wall)
	}
	pprof.StopCPUProfile()
	os.Exit(exit)
}

func contains(l []string, s string) bool {
	for _, x := range l {
		if x == s {
			return true
		}
	}
	return false
}

func loadSpec(prop string) (*Spec, error) {
	b, err := os.ReadFile(filepath.Join(verifDir, "harness", prop, "spec.json"))
	if err != nil {
		return nil, err
	}
	var s Spec
	if err := json.Unmarshal(b, &s); err != nil {
		return nil, err
	}
	if s.Property != prop {
		return nil, fmt.Errorf("spec property %q != %q", s.Property, prop)
	}
	return &s, nil
}

func loadKnown() []Known {
	b, err := os.ReadFile(filepath.Join(verifDir, "known_findings.json"))
	if err != nil {
		return nil
	}
	var k struct {
		Findings []Known `json:"findings"`
	}
	if err := json.Unmarshal(b, &k); err != nil {
		fmt.Println("INFRA known_findings.json:", err)
		os.Exit(2)
	}
	return k.Findings
}

// overlayFor builds the overlay (virtual path -> content) for a harness.
func overlayFor(spec *Spec, h *Harness) (map[string][]byte, error) {
	ov := map[string][]byte{}
	rtFiles, _ := filepath.Glob(filepath.Join(verifDir, "rt", "verifrt", "*.go"))
	for _, f := range rtFiles {
		b, err := os.ReadFile(f)
		if err != nil {
			return nil, err
		}
		ov[filepath.Join(repoDir, "verifrt", filepath.Base(f))] = b
	}
	for _, f := range h.Files {
		b, err := os.ReadFile(filepath.Join(verifDir, "harness", spec.Property, f))
		if err != nil {
			return nil, err
		}
		bn := filepath.Base(f) // a spec may share a file of another property's directory (../Cxx/<file>)
		i := strings.Index(bn, "__")
		if i < 0 {
			return nil, fmt.Errorf("harness file %s: want <pkgdir>__name.go", f)
		}
		dir := strings.ReplaceAll(bn[:i], "-", "/")
		ov[filepath.Join(repoDir, dir, "zz_verif_"+bn[i+2:])] = b
	}
	for _, rw := range h.Rewrites {
		p := filepath.Join(repoDir, rw.File)
		cur, ok := ov[p]
		if !ok {
			b, err := os.ReadFile(p)
			if err != nil {
				return nil, fmt.Errorf("anchor-not-found: %s: %v", rw.File, err)
			}
			cur = b
		}
		n := strings.Count(string(cur), rw.Old)
		if n == 0 || (n > 1 && !rw.All) {
			return nil, fmt.Errorf("anchor-not-found: %q occurs %d times in %s", rw.Old, n, rw.File)
		}
		ov[p] = []byte(strings.ReplaceAll(string(cur), rw.Old, rw.New))
	}
	return ov, nil
}

type harnessResult struct {
	jobResult
	infra    string
	findings []*finding
	jobs     int
	wall     float64
	params   map[string]int
	solver   string
	shapes   int
}

func runHarness(spec *Spec, h *Harness, tier string, workers int, verbose bool, prefixFlag string, scratch string) *harnessResult {
	t0 := time.Now()
	hr := &harnessResult{params: h.Params[tier], solver: h.Solver}
	hr.funcs = map[string]bool{}
	hr.st.Reach = map[string]int{}
	hr.st.Notes = map[string]int{}
	if hr.solver == "" {
		hr.solver = "cvc5"
	}
	if hr.params == nil {
		hr.params = map[string]int{}
	}
	ov, err := overlayFor(spec, h)
	if err != nil {
		hr.infra = err.Error()
		return hr
	}
	cfg := &packages.Config{Mode: packages.LoadAllSyntax, Dir: repoDir, Overlay: ov,
		Env: append(os.Environ(), "GOFLAGS=-mod=mod", "GOPROXY=off")}
	pats := []string{"./" + h.Pkg, "unicode/utf8"}
	pats = append(pats, h.ExtraPkgs...)
	ps, err := packages.Load(cfg, pats...)
	if err != nil {
		hr.infra = "package load: " + err.Error()
		return hr
	}
	nerr := 0
	packages.Visit(ps, nil, func(p *packages.Package) {
		for _, e := range p.Errors {
			if nerr < 10 {
				fmt.Fprintln(os.Stderr, "load error:", e)
			}
			nerr++
		}
	})
	if nerr > 0 {
		hr.infra = fmt.Sprintf("package load: %d errors (harness does not compile against the current tree)", nerr)
		return hr
	}
	prog, _ := ssautil.AllPackages(ps, ssa.InstantiateGenerics)
	prog.Build()
	pkgPath := repoMod + "/" + h.Pkg
	pkg := prog.ImportedPackage(pkgPath)
	if pkg == nil {
		hr.infra = "package not found: " + pkgPath
		return hr
	}
	entry := pkg.Func(h.Entry)
	if entry == nil {
		hr.infra = "entry not found: " + h.Entry
		return hr
	}
	var pre []*ssa.Package
	for _, p := range h.Preinit {
		sp := prog.ImportedPackage(p)
		if sp == nil {
			hr.infra = "preinit package not loaded: " + p
			return hr
		}
		pre = append(pre, sp)
	}
	timeout := 20000
	if tier == "thorough" {
		timeout = 120000
	}
	if v, ok := h.TimeoutMs[tier]; ok {
		timeout = v
	}
	redirect := map[string]string{}
	for k, v := range defaultRedirect {
		if v != "" {
			redirect[k] = v
		}
	}
	for k, v := range h.Redirect {
		redirect[k] = v
	}
	skip := map[string]bool{}
	models := map[string]bool{}
	for _, m := range h.Models {
		models[m] = true
	}
	for _, f := range h.SkipFuncs {
		skip[f] = true
	}
	mkcfg := func() interp.Config {
		return interp.Config{RTPath: repoMod + "/verifrt", Blackhole: append(append([]string(nil), defaultBlackhole...), h.Blackhole...),
			NoModelCache: os.Getenv("VERIF_NOMODEL") != "" || h.NoModelCache, SkipFuncs: skip, Models: models, Redirect: redirect, MaxSteps: h.MaxSteps, PanicOK: h.PanicOK, PreemptAtSync: h.PreemptAtSync, KeepFuncs: h.KeepFuncs, Verbose: verbose, Params: hr.params}
	}
	runJob := func(prefix []int, discover int) (*jobResult, error) {
		sol, err := smt.New(hr.solver, timeout)
		if err != nil {
			return nil, err
		}
		defer sol.Close()
		if lf := os.Getenv("VERIF_SMTLOG"); lf != "" {
			f, _ := os.Create(lf)
			sol.Log = f
			defer f.Close()
		}
		c := mkcfg()
		c.Prefix = prefix
		c.DiscoverDepth = discover
		c.SampleDone = 4
		if tier == "thorough" {
			c.SampleDone = 8
		}
		in := interp.New(prog, sol, c)
		in.Explore(entry, pre)
		if os.Getenv("VERIF_PROFILE") != "" {
			fmt.Fprintf(os.Stderr, "PROFILE solver check time %.1fs, total wait %.1fs\n", sol.Time.Seconds(), sol.WaitTime.Seconds())
			type kv struct {
				k string
				v int
			}
			var l []kv
			for f, n := range in.StepProf {
				l = append(l, kv{f.String(), n})
			}
			sort.Slice(l, func(i, j int) bool { return l[i].v > l[j].v })
			for i := 0; i < len(l) && i < 15; i++ {
				fmt.Fprintf(os.Stderr, "PROFILE %10d %s\n", l[i].v, l[i].k)
			}
		}
		r := &jobResult{st: in.St, fails: in.Failures, prefixes: in.Prefixes, samples: in.Samples, doneVecs: in.DoneVectors,
			queries: sol.Queries, nsat: sol.NSat, nunsat: sol.NUnsat, nunk: sol.NUnk, nerr: sol.Errors, soltime: sol.Time,
			funcs: in.St.Funcs, terms: in.Terms().NumTerms(), lastErr: sol.LastErr}
		return r, nil
	}
	var results []*jobResult
	if prefixFlag != "" {
		var pf []int
		for _, x := range strings.Split(prefixFlag, ",") {
			v, _ := strconv.Atoi(x)
			pf = append(pf, v)
		}
		r, err := runJob(pf, 0)
		if err != nil {
			hr.infra = err.Error()
			return hr
		}
		results = append(results, r)
	} else if h.DiscoverDepth > 0 {
		r, err := runJob(nil, h.DiscoverDepth)
		if err != nil {
			hr.infra = err.Error()
			return hr
		}
		results = append(results, r)
		seen := map[string]bool{}
		var prefixes [][]int
		for _, p := range r.prefixes {
			k := fmt.Sprint(p)
			if !seen[k] {
				seen[k] = true
				prefixes = append(prefixes, p)
			}
		}
		hr.shapes = len(prefixes)
		var mu sync.Mutex
		var wg sync.WaitGroup
		ch := make(chan []int)
		var firstErr error
		for w := 0; w < workers && w < len(prefixes); w++ {
			wg.Add(1)
			go func() {
				defer wg.Done()
				for p := range ch {
					r, err := runJob(p, 0)
					mu.Lock()
					if err != nil {
						firstErr = err
					} else {
						results = append(results, r)
					}
					mu.Unlock()
				}
			}()
		}
		for _, p := range prefixes {
			ch <- p
		}
		close(ch)
		wg.Wait()
		if firstErr != nil {
			hr.infra = firstErr.Error()
			return hr
		}
	} else {
		r, err := runJob(nil, 0)
		if err != nil {
			hr.infra = err.Error()
			return hr
		}
		results = append(results, r)
		hr.shapes = 1
	}
	hr.jobs = len(results)
	// aggregate
	bySig := map[string]*finding{}
	var unsup []string
	for _, r := range results {
		a, b := &hr.st, &r.st
		a.Paths += b.Paths
		a.Done += b.Done
		a.Panicked += b.Panicked
		a.AssumeFalse += b.AssumeFalse
		a.Bound += b.Bound
		a.Unsupported += b.Unsupported
		a.Fatal += b.Fatal
		a.Deadlock += b.Deadlock
		a.Forks += b.Forks
		a.Steps += b.Steps
		a.AssertChecks += b.AssertChecks
		a.AssertQueries += b.AssertQueries
		a.AssertFail += b.AssertFail
		a.AssertUnknown += b.AssertUnknown
		a.FeasUnknown += b.FeasUnknown
		for k, v := range b.Reach {
			a.Reach[k] += v
		}
		for k, v := range b.Notes {
			a.Notes[k] += v
		}
		for k := range r.funcs {
			hr.funcs[k] = true
		}
		hr.queries += r.queries
		hr.nsat += r.nsat
		hr.nunsat += r.nunsat
		hr.nunk += r.nunk
		hr.nerr += r.nerr
		hr.soltime += r.soltime
		hr.terms += r.terms
		if r.lastErr != "" {
			hr.lastErr = r.lastErr
		}
		if len(hr.samples) < 3 {
			hr.samples = append(hr.samples, r.samples...)
		}
		if len(hr.doneVecs) < 12 {
			hr.doneVecs = append(hr.doneVecs, r.doneVecs...)
		}
		for _, f := range r.fails {
			if f.Kind == "unsupported" {
				unsup = append(unsup, f.Label)
				continue
			}
			if f.Kind == "unknown" {
				continue
			}
			sig := signature(f)
			fd := bySig[sig]
			if fd == nil {
				fd = &finding{harness: h.Name, sig: sig, kind: f.Kind, label: f.Label, pos: f.Pos}
				bySig[sig] = fd
			}
			fd.count++
			if len(fd.vectors) < 3 {
				fd.vectors = append(fd.vectors, f.Vector)
			}
		}
	}
	var sigs []string
	for s := range bySig {
		sigs = append(sigs, s)
	}
	sort.Strings(sigs)
	for _, s := range sigs {
		hr.findings = append(hr.findings, bySig[s])
	}
	hr.wall = time.Since(t0).Seconds()
	// verdict on infrastructure
	switch {
	case len(unsup) > 0:
		sort.Strings(unsup)
		hr.infra = fmt.Sprintf("unsupported construct on %d path(s): %s", len(unsup), unsup[0])
	case hr.nerr > 0:
		hr.infra = fmt.Sprintf("solver error lines: %d (last: %s)", hr.nerr, hr.lastErr)
	case hr.st.AssertUnknown > 0:
		// an undecided assertion is inconclusive; an undecided branch feasibility is not: the branch is
		// kept (a superset of the feasible paths is explored), which is reported in the evidence
		hr.infra = fmt.Sprintf("INCONCLUSIVE: solver unknown on %d assertion queries (and %d feasibility queries)", hr.st.AssertUnknown, hr.st.FeasUnknown)
	case hr.st.AssertQueries == 0 && hr.st.AssertChecks == 0:
		hr.infra = "vacuous: no assertion was checked"
	}
	if hr.infra == "" {
		for _, l := range h.Reach {
			if hr.st.Reach[l] == 0 {
				hr.infra = "vacuous: reach label " + l + " not reached on any path"
			}
		}
	}
	fmt.Printf("[%s/%s] tier=%s params=%v jobs=%d paths=%d (done %d, assume-pruned %d, panicked %d, fatal %d, deadlock %d, bound %d, unsupported %d) forks=%d steps=%d assertions=%d (queries %d, failed %d, unknown %d) solver: %d queries, %d unsat, %d sat, %d unknown, %.1fs; wall %.1fs; functions encoded %d\n",
		spec.Property, h.Name, tier, hr.params, hr.jobs, hr.st.Paths, hr.st.Done, hr.st.AssumeFalse, hr.st.Panicked, hr.st.Fatal, hr.st.Deadlock, hr.st.Bound, hr.st.Unsupported,
		hr.st.Forks, hr.st.Steps, hr.st.AssertChecks, hr.st.AssertQueries, hr.st.AssertFail, hr.st.AssertUnknown,
		hr.queries, hr.nunsat, hr.nsat, hr.nunk, hr.soltime.Seconds(), hr.wall, len(hr.funcs))
	return hr
}

var lineRe = regexp.MustCompile(`:\d+\)`)
var numRe = regexp.MustCompile(`\[\d+\]|\d+`)

// signature identifies a failure independently of line numbers and concrete values.
func signature(f *interp.Failure) string {
	l := f.Label
	if i := strings.Index(l, "\n"); i >= 0 {
		l = l[:i]
	}
	l = lineRe.ReplaceAllString(l, ")")
	if f.Kind != "assert" {
		l = numRe.ReplaceAllString(l, "N")
	}
	if len(l) > 200 {
		l = l[:200]
	}
	return f.Kind + ": " + l
}

// ---------------------------------------------------------------- native replay

type replayFile struct {
	Property string         `json:"property"`
	Harness  string         `json:"harness"`
	Tier     string         `json:"tier"`
	Kind     string         `json:"kind"`
	Sig      string         `json:"signature"`
	Vector   []uint64       `json:"vector"`
	Vectors  [][]uint64     `json:"vectors,omitempty"`
	Params   map[string]int `json:"params"`
}

func nativeRun(spec *Spec, h *Harness, rf *replayFile, scratch string, timeout time.Duration) (outcomes []string, raw string, err error) {
	ov, err := overlayFor(spec, h)
	if err != nil {
		return nil, "", err
	}
	dir, err := os.MkdirTemp(scratch, "replay-")
	if err != nil {
		return nil, "", err
	}
	defer os.RemoveAll(dir)
	pkgName := ""
	// package name: read from first harness file
	for p, b := range ov {
		if strings.HasPrefix(filepath.Base(p), "zz_verif_") && filepath.Dir(p) == filepath.Join(repoDir, h.Pkg) {
			m := regexp.MustCompile(`(?m)^package\s+(\w+)`).FindSubmatch(b)
			if m != nil {
				pkgName = string(m[1])
			}
		}
	}
	if pkgName == "" {
		return nil, "", fmt.Errorf("cannot determine package name of harness")
	}
	test := fmt.Sprintf("package %s\n\nimport (\n\t\"testing\"\n\trt \"%s/verifrt\"\n)\n\nfunc TestVerifReplay(t *testing.T) {\n\tif !rt.RunReplayAll(%s) {\n\t\tt.Fail()\n\t}\n}\n", pkgName, repoMod, h.Entry)
	ov[filepath.Join(repoDir, h.Pkg, "zz_verif_replay_test.go")] = []byte(test)
	repl := map[string]string{}
	i := 0
	for virt, content := range ov {
		real := filepath.Join(dir, fmt.Sprintf("f%d_%s", i, filepath.Base(virt)))
		i++
		if err := os.WriteFile(real, content, 0o644); err != nil {
			return nil, "", err
		}
		repl[virt] = real
	}
	ovj, _ := json.Marshal(map[string]any{"Replace": repl})
	ovPath := filepath.Join(dir, "overlay.json")
	os.WriteFile(ovPath, ovj, 0o644)
	rp := filepath.Join(dir, "replay.json")
	rb, _ := json.Marshal(rf)
	os.WriteFile(rp, rb, 0o644)
	cmd := exec.Command("go", "test", "-v", "-vet=off", "-count=1", "-overlay", ovPath, "-run", "^TestVerifReplay$", "-timeout", fmt.Sprintf("%ds", int(timeout.Seconds())), "./"+h.Pkg)
	cmd.Dir = repoDir
	cmd.Env = append(os.Environ(), "GOFLAGS=-mod=mod", "GOPROXY=off", "VERIF_REPLAY="+rp)
	out, _ := cmd.CombinedOutput()
	raw = string(out)
	for _, l := range strings.Split(raw, "\n") {
		if strings.HasPrefix(l, "VERIF-OUTCOME ") {
			outcomes = append(outcomes, strings.TrimPrefix(l, "VERIF-OUTCOME "))
		}
	}
	return outcomes, raw, nil
}

func outcomeMatches(kind, label, assertLabel, outcome, raw string) bool {
	switch kind {
	case "assert":
		return outcome == "assert "+assertLabel
	case "panic":
		if strings.HasPrefix(outcome, "panic ") {
			return true
		}
		// a panic in another goroutine kills the test binary before an outcome line is printed
		if outcome == "" && strings.Contains(raw, "panic: ") {
			if m := regexp.MustCompile(`\.(\w+) \(\w+\.go\)`).FindStringSubmatch(label); m != nil {
				return strings.Contains(raw, "."+m[1]+"(")
			}
			return true
		}
		return false
	case "fatal":
		return strings.HasPrefix(outcome, "fatal") || (outcome == "" && (strings.Contains(raw, "exit status") || strings.Contains(raw, "FAIL")))
	case "deadlock", "bound":
		return outcome == "" && (strings.Contains(raw, "test timed out") || strings.Contains(raw, "all goroutines are asleep"))
	}
	return false
}

func confirmFinding(spec *Spec, h *Harness, f *finding, tier string, scratch string) {
	dir := filepath.Join(verifDir, "replays", spec.Property)
	os.MkdirAll(dir, 0o755)
	for i, v := range f.vectors {
		rf := &replayFile{Property: spec.Property, Harness: h.Name, Tier: tier, Kind: f.kind, Sig: f.sig, Vector: v, Params: h.Params[tier]}
		to := 120 * time.Second
		if f.kind == "deadlock" || f.kind == "bound" {
			to = 20 * time.Second
		}
		outs, raw, err := nativeRun(spec, h, rf, scratch, to)
		out := ""
		if len(outs) > 0 {
			out = outs[0]
		}
		if err != nil {
			out = "replay infrastructure error: " + err.Error()
		}
		f.outcome = out
		if out == "" {
			f.outcome = "(no outcome line) " + lastLines(raw, 6)
		}
		name := fmt.Sprintf("%s-%s-%d.json", h.Name, sanitize(f.sig), i)
		p := filepath.Join(dir, name)
		b, _ := json.MarshalIndent(rf, "", " ")
		os.WriteFile(p, b, 0o644)
		f.replay = p
		if err == nil && outcomeMatches(f.kind, f.sig, f.label, out, raw) {
			f.confirm = true
			return
		}
	}
}

func lastLines(s string, n int) string {
	ls := strings.Split(strings.TrimSpace(s), "\n")
	if len(ls) > n {
		ls = ls[len(ls)-n:]
	}
	return strings.Join(ls, " | ")
}

func sanitize(s string) string {
	var sb strings.Builder
	for _, r := range s {
		switch {
		case r >= 'a' && r <= 'z', r >= 'A' && r <= 'Z', r >= '0' && r <= '9':
			sb.WriteRune(r)
		default:
			sb.WriteByte('_')
		}
		if sb.Len() > 60 {
			break
		}
	}
	return sb.String()
}

// validateDone replays models of completed paths natively; each must end "done".
func validateDone(spec *Spec, h *Harness, vecs [][]uint64, tier string, scratch string) (int, string) {
	if len(vecs) > 12 {
		vecs = vecs[:12]
	}
	rf := &replayFile{Property: spec.Property, Harness: h.Name, Tier: tier, Kind: "validate", Vectors: vecs, Params: h.Params[tier]}
	outs, raw, err := nativeRun(spec, h, rf, scratch, 180*time.Second)
	if err != nil {
		return 0, err.Error()
	}
	if len(outs) != len(vecs) {
		return 0, fmt.Sprintf("native run produced %d outcomes for %d vectors: %s", len(outs), len(vecs), lastLines(raw, 8))
	}
	for i, o := range outs {
		if o != "done" {
			return i, fmt.Sprintf("path %d: symbolic run completed but native run gave %q (vector %v)", i, o, vecs[i])
		}
	}
	return len(vecs), ""
}

func doReplayFile(path string) int {
	b, err := os.ReadFile(path)
	if err != nil {
		fmt.Println("INFRA", err)
		return 2
	}
	var rf replayFile
	if err := json.Unmarshal(b, &rf); err != nil {
		fmt.Println("INFRA", err)
		return 2
	}
	spec, err := loadSpec(rf.Property)
	if err != nil {
		fmt.Println("INFRA", err)
		return 2
	}
	scratch, _ := os.MkdirTemp("", "vcheck-")
	defer os.RemoveAll(scratch)
	for i := range spec.Harnesses {
		h := &spec.Harnesses[i]
		if h.Name != rf.Harness {
			continue
		}
		outs, raw, err := nativeRun(spec, h, &rf, scratch, 120*time.Second)
		if err != nil {
			fmt.Println("INFRA", err)
			return 2
		}
		out := ""
		if len(outs) > 0 {
			out = outs[0]
		}
		fmt.Printf("replay %s: expected %s; native outcome: %q\n", path, rf.Sig, out)
		if out == "" {
			fmt.Println(lastLines(raw, 15))
		}
		if out == "done" {
			return 0
		}
		fmt.Printf("VIOLATION property=%s replay=%s\n", rf.Property, path)
		return 1
	}
	fmt.Println("INFRA harness not found:", rf.Harness)
	return 2
}
