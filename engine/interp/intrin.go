package interp

import (
	"fmt"
	"go/types"
	"math"
	"strings"
	"sync"
	"unicode"

	"golang.org/x/tools/go/ssa"

	"gosym/smt"
	"gosym/term"
)

type callCtx struct {
	th    *Thread
	f     *Frame
	at    ssa.Instruction
	args  []Value
	retTo ssa.Value
	rk    retKind
	fn    *ssa.Function
}

// intrFn returns (result, forks, done). done=false with nil forks means the
// handler arranged the continuation itself (blocked the thread or pushed a frame).
type intrFn func(in *Interp, s *State, c *callCtx) (Value, []*State, bool)

var intrinsics = map[string]intrFn{}
var rtIntrinsics = map[string]intrFn{}
var blackholeSpecial = map[string]func(in *Interp, s *State, args []Value){}

func (in *Interp) fresh(s *State, w int, site string) *term.Term {
	n := len(s.trace)
	v := in.ts.Var(fmt.Sprintf("n%d_%d", n, w), term.BV(w))
	s.trace = append(s.trace, nondetRec{Kind: "v", Var: v, Site: site})
	return v
}

func (in *Interp) freshBool(s *State, site string) *term.Term {
	n := len(s.trace)
	v := in.ts.Var(fmt.Sprintf("b%d", n), term.Bool)
	s.trace = append(s.trace, nondetRec{Kind: "v", Var: v, Site: site})
	return v
}

// internal (not replayed) fresh variable
func (in *Interp) internalVar(w int) *term.Term {
	in.pcSeq++
	return in.ts.Var(fmt.Sprintf("i%d_%d", in.pcSeq, w), term.BV(w))
}

func strArg(v Value) string {
	s := v.(*Str)
	if s.B != nil {
		panic(unsupported{"label must be a constant string"})
	}
	return s.S
}

func init() {
	rt := func(name string, h intrFn) { rtIntrinsics[name] = h }
	nd := func(w int) intrFn {
		return func(in *Interp, s *State, c *callCtx) (Value, []*State, bool) {
			return in.fresh(s, w, in.pos(c.at)), nil, true
		}
	}
	rt("NondetU8", nd(8))
	rt("NondetU16", nd(16))
	rt("NondetU32", nd(32))
	rt("NondetU64", nd(64))
	rt("NondetInt", nd(64))
	rt("NondetI64", nd(64))
	rt("NondetI32", nd(32))
	rt("NondetBool", func(in *Interp, s *State, c *callCtx) (Value, []*State, bool) {
		return in.freshBool(s, in.pos(c.at)), nil, true
	})
	rt("NondetF64", func(in *Interp, s *State, c *callCtx) (Value, []*State, bool) {
		return in.ts.FFromBits(in.fresh(s, 64, in.pos(c.at))), nil, true
	})
	rt("Assume", func(in *Interp, s *State, c *callCtx) (Value, []*State, bool) {
		t := c.args[0].(*term.Term)
		if v, ok := in.known(s, t); ok {
			if !v {
				s.status = AssumeFalse
			}
			return nil, nil, true
		}
		if !in.feasible(s, t) {
			s.status = AssumeFalse
			return nil, nil, true
		}
		in.addPC(s, t)
		return nil, nil, true
	})
	rt("Assert", func(in *Interp, s *State, c *callCtx) (Value, []*State, bool) {
		t := c.args[0].(*term.Term)
		label := strArg(c.args[1])
		in.St.AssertChecks++
		if t.IsTrue() {
			return nil, nil, true
		}
		if v, ok := in.known(s, t); ok && v {
			return nil, nil, true
		}
		neg := in.ts.Not(t)
		in.St.AssertQueries++
		var r smt.Result
		var m map[string]uint64
		if bad, have := in.evalModel(s, neg); have && bad {
			// the cached model of the path condition already violates the assertion
			r = smt.Sat
			m = in.namedModel(s)
		} else {
			var err error
			r, err = in.check(s, neg)
			if err != nil {
				r = smt.Unknown
			}
			if r == smt.Sat {
				m, _ = in.sol.Model(in.traceVars(s))
			}
		}
		switch r {
		case smt.Sat:
			in.St.AssertFail++
			s.fails = append(s.fails, &Failure{Kind: "assert", Label: label, Pos: in.pos(c.at), Model: m, Vector: in.vector(s, m), Choices: s.choices()})
			if !in.feasible(s, t) {
				s.status = AssumeFalse
				return nil, nil, true
			}
			in.addPC(s, t)
		case smt.Unknown:
			in.St.AssertUnknown++
			s.fails = append(s.fails, &Failure{Kind: "unknown", Label: label, Pos: in.pos(c.at), Choices: s.choices()})
			in.addPC(s, t)
		default:
			in.addPC(s, t)
		}
		return nil, nil, true
	})
	rt("And", func(in *Interp, s *State, c *callCtx) (Value, []*State, bool) {
		return in.ts.And(c.args[0].(*term.Term), c.args[1].(*term.Term)), nil, true
	})
	rt("Or", func(in *Interp, s *State, c *callCtx) (Value, []*State, bool) {
		return in.ts.Or(c.args[0].(*term.Term), c.args[1].(*term.Term)), nil, true
	})
	rt("Implies", func(in *Interp, s *State, c *callCtx) (Value, []*State, bool) {
		return in.ts.Implies(c.args[0].(*term.Term), c.args[1].(*term.Term)), nil, true
	})
	rt("Not", func(in *Interp, s *State, c *callCtx) (Value, []*State, bool) {
		return in.ts.Not(c.args[0].(*term.Term)), nil, true
	})
	ite := func(in *Interp, s *State, c *callCtx) (Value, []*State, bool) {
		return in.merge(c.args[0].(*term.Term), c.args[1], c.args[2]), nil, true
	}
	for _, n := range []string{"IteInt", "IteU64", "IteU32", "IteU8", "IteBool", "IteF64", "IteI64"} {
		rt(n, ite)
	}
	rt("Reach", func(in *Interp, s *State, c *callCtx) (Value, []*State, bool) {
		s.reach[strArg(c.args[0])] = true
		return nil, nil, true
	})
	rt("Note", func(in *Interp, s *State, c *callCtx) (Value, []*State, bool) {
		s.notes = append(s.notes, strArg(c.args[0]))
		return nil, nil, true
	})
	rt("Symbolic", func(in *Interp, s *State, c *callCtx) (Value, []*State, bool) {
		return in.ts.BoolC(true), nil, true
	})
	rt("Repeat", func(in *Interp, s *State, c *callCtx) (Value, []*State, bool) {
		return in.ts.Const(64, 1), nil, true
	})
	rt("IsFatal", func(in *Interp, s *State, c *callCtx) (Value, []*State, bool) {
		return in.ts.BoolC(false), nil, true
	})
	rt("Choose", func(in *Interp, s *State, c *callCtx) (Value, []*State, bool) {
		nt := c.args[0].(*term.Term)
		if !nt.IsConst() {
			in.unsup("Choose with symbolic bound")
		}
		n := int(nt.Val)
		if n <= 0 {
			s.status = AssumeFalse
			return nil, nil, true
		}
		k := s.nchoice
		if in.cfg.DiscoverDepth > 0 && k == in.cfg.DiscoverDepth-1 {
			for i := 0; i < n; i++ {
				in.Prefixes = append(in.Prefixes, append(s.choices(), i))
			}
			s.status = AssumeFalse
			return nil, nil, true
		}
		if k < len(in.cfg.Prefix) {
			v := in.cfg.Prefix[k]
			if v >= n {
				s.status = AssumeFalse
				return nil, nil, true
			}
			s.nchoice++
			s.trace = append(s.trace, nondetRec{Kind: "c", Val: uint64(v), Site: in.pos(c.at)})
			return in.ts.Const(64, uint64(v)), nil, true
		}
		var forks []*State
		for i := 1; i < n; i++ {
			o := s.clone()
			o.nchoice++
			o.trace = append(o.trace, nondetRec{Kind: "c", Val: uint64(i), Site: in.pos(c.at)})
			of := o.thread().top()
			if c.retTo != nil {
				of.set(c.retTo, in.ts.Const(64, uint64(i)))
			}
			of.ip++
			forks = append(forks, o)
		}
		s.nchoice++
		s.trace = append(s.trace, nondetRec{Kind: "c", Val: 0, Site: in.pos(c.at)})
		if len(forks) == 0 {
			return in.ts.Const(64, 0), nil, true
		}
		if c.retTo != nil {
			c.f.set(c.retTo, in.ts.Const(64, 0))
		}
		c.f.ip++
		return nil, forks, false
	})
	// a scheduling decision: explored like any other choice by the engine; a native run draws it at
	// random instead of reading it from the replay vector (see verifrt.ChooseSchedule)
	rtIntrinsics["ChooseSchedule"] = rtIntrinsics["Choose"]
	rt("Param", func(in *Interp, s *State, c *callCtx) (Value, []*State, bool) {
		name := strArg(c.args[0])
		v, ok := in.cfg.Params[name]
		if !ok {
			in.unsup("unknown harness parameter %q", name)
		}
		return in.ts.Const(64, uint64(int64(v))), nil, true
	})
	rt("AssignIfMatches", func(in *Interp, s *State, c *callCtx) (Value, []*State, bool) {
		cur, _ := c.args[0].(*Iface)
		tgt, _ := c.args[1].(*Iface)
		if tgt == nil || tgt.T == nil {
			panic(goPanic{msg: "errors: target cannot be nil"})
		}
		pt, ok := tgt.T.Underlying().(*types.Pointer)
		if !ok {
			panic(goPanic{msg: "errors: target must be a non-nil pointer"})
		}
		elem := pt.Elem()
		if cur == nil || cur.T == nil {
			return in.ts.BoolC(false), nil, true
		}
		match := false
		if types.IsInterface(elem) {
			match = types.Implements(cur.T, elem.Underlying().(*types.Interface))
		} else {
			match = types.Identical(cur.T, elem)
		}
		if !match {
			return in.ts.BoolC(false), nil, true
		}
		if types.IsInterface(elem) {
			in.store(s, tgt.V.(*Ptr), cur)
		} else {
			in.store(s, tgt.V.(*Ptr), cur.V)
		}
		return in.ts.BoolC(true), nil, true
	})
	rt("LenAny", func(in *Interp, s *State, c *callCtx) (Value, []*State, bool) {
		sl, ok := c.args[0].(*Iface).V.(*Slice)
		if !ok {
			in.unsup("LenAny of non-slice")
		}
		return in.ts.Const(64, uint64(sl.Len)), nil, true
	})
	rt("SwapAny", func(in *Interp, s *State, c *callCtx) (Value, []*State, bool) {
		sl, ok := c.args[0].(*Iface).V.(*Slice)
		if !ok {
			in.unsup("SwapAny of non-slice")
		}
		i, j := c.args[1].(*term.Term), c.args[2].(*term.Term)
		if !i.IsConst() || !j.IsConst() {
			in.unsup("SwapAny with symbolic index")
		}
		pi := sl.Arr.child(PathElem{Idx: sl.Off + int(i.Val)})
		pj := sl.Arr.child(PathElem{Idx: sl.Off + int(j.Val)})
		vi, vj := in.load(s, pi), in.load(s, pj)
		in.store(s, pi, vj)
		in.store(s, pj, vi)
		return nil, nil, true
	})
	rt("Fatal", func(in *Interp, s *State, c *callCtx) (Value, []*State, bool) {
		s.status = Fatal
		s.msg = "Fatal: " + in.show(c.args[0]) + in.where(s)
		return nil, nil, true
	})
	// UF2: uninterpreted function over two 64-bit ints with functional consistency (Ackermann).
	rt("UF2", func(in *Interp, s *State, c *callCtx) (Value, []*State, bool) {
		name := strArg(c.args[0])
		a, b := c.args[1].(*term.Term), c.args[2].(*term.Term)
		return in.ufApply(s, name, []*term.Term{a, b}, 64), nil, true
	})

	reg := func(name string, h intrFn) { intrinsics[name] = h }
	nop := func(in *Interp, s *State, c *callCtx) (Value, []*State, bool) { return nil, nil, true }

	// ---- sync/atomic (body-less functions)
	for _, ty := range []struct {
		n string
		w int
	}{{"Int32", 32}, {"Int64", 64}, {"Uint32", 32}, {"Uint64", 64}, {"Uintptr", 64}} {
		w := ty.w
		reg("sync/atomic.Load"+ty.n, func(in *Interp, s *State, c *callCtx) (Value, []*State, bool) {
			return in.load(s, c.args[0].(*Ptr)), nil, true
		})
		reg("sync/atomic.Store"+ty.n, func(in *Interp, s *State, c *callCtx) (Value, []*State, bool) {
			in.store(s, c.args[0].(*Ptr), c.args[1])
			return nil, nil, true
		})
		reg("sync/atomic.Add"+ty.n, func(in *Interp, s *State, c *callCtx) (Value, []*State, bool) {
			p := c.args[0].(*Ptr)
			nv := in.ts.Add(in.load(s, p).(*term.Term), c.args[1].(*term.Term))
			in.store(s, p, nv)
			return nv, nil, true
		})
		reg("sync/atomic.Swap"+ty.n, func(in *Interp, s *State, c *callCtx) (Value, []*State, bool) {
			p := c.args[0].(*Ptr)
			old := in.load(s, p)
			in.store(s, p, c.args[1])
			return old, nil, true
		})
		reg("sync/atomic.CompareAndSwap"+ty.n, func(in *Interp, s *State, c *callCtx) (Value, []*State, bool) {
			p := c.args[0].(*Ptr)
			cur := in.load(s, p).(*term.Term)
			eq := in.ts.Eq(cur, c.args[1].(*term.Term))
			in.store(s, p, in.ts.Ite(eq, c.args[2].(*term.Term), cur))
			return eq, nil, true
		})
		reg("sync/atomic.And"+ty.n, func(in *Interp, s *State, c *callCtx) (Value, []*State, bool) {
			p := c.args[0].(*Ptr)
			old := in.load(s, p).(*term.Term)
			in.store(s, p, in.ts.BAnd(old, c.args[1].(*term.Term)))
			return old, nil, true
		})
		reg("sync/atomic.Or"+ty.n, func(in *Interp, s *State, c *callCtx) (Value, []*State, bool) {
			p := c.args[0].(*Ptr)
			old := in.load(s, p).(*term.Term)
			in.store(s, p, in.ts.BOr(old, c.args[1].(*term.Term)))
			return old, nil, true
		})
		_ = w
	}
	reg("sync/atomic.LoadPointer", func(in *Interp, s *State, c *callCtx) (Value, []*State, bool) {
		return in.load(s, c.args[0].(*Ptr)), nil, true
	})
	reg("sync/atomic.StorePointer", func(in *Interp, s *State, c *callCtx) (Value, []*State, bool) {
		in.store(s, c.args[0].(*Ptr), c.args[1])
		return nil, nil, true
	})
	reg("sync/atomic.SwapPointer", func(in *Interp, s *State, c *callCtx) (Value, []*State, bool) {
		p := c.args[0].(*Ptr)
		old := in.load(s, p)
		in.store(s, p, c.args[1])
		return old, nil, true
	})
	reg("sync/atomic.CompareAndSwapPointer", func(in *Interp, s *State, c *callCtx) (Value, []*State, bool) {
		p := c.args[0].(*Ptr)
		cur := in.load(s, p)
		eq := in.valueEq(cur, c.args[1])
		if !eq.IsConst() {
			in.unsup("CAS pointer with symbolic equality")
		}
		if eq.IsTrue() {
			in.store(s, p, c.args[2])
		}
		return eq, nil, true
	})
	reg("(*sync/atomic.Value).Load", func(in *Interp, s *State, c *callCtx) (Value, []*State, bool) {
		return in.load(s, c.args[0].(*Ptr).child(PathElem{Idx: 0})), nil, true
	})
	reg("(*sync/atomic.Value).Store", func(in *Interp, s *State, c *callCtx) (Value, []*State, bool) {
		in.store(s, c.args[0].(*Ptr).child(PathElem{Idx: 0}), c.args[1])
		return nil, nil, true
	})

	// ---- math
	reg("math.Float64bits", func(in *Interp, s *State, c *callCtx) (Value, []*State, bool) {
		return in.fpBits(s, c.args[0].(*term.Term)), nil, true
	})
	reg("math.Float64frombits", func(in *Interp, s *State, c *callCtx) (Value, []*State, bool) {
		return in.ts.FFromBits(c.args[0].(*term.Term)), nil, true
	})
	reg("math.Float32bits", func(in *Interp, s *State, c *callCtx) (Value, []*State, bool) {
		return in.fpBits(s, c.args[0].(*term.Term)), nil, true
	})
	reg("math.Float32frombits", func(in *Interp, s *State, c *callCtx) (Value, []*State, bool) {
		return in.ts.FFromBits(c.args[0].(*term.Term)), nil, true
	})
	reg("math.IsNaN", func(in *Interp, s *State, c *callCtx) (Value, []*State, bool) {
		return in.ts.FIsNaN(c.args[0].(*term.Term)), nil, true
	})
	reg("math.IsInf", func(in *Interp, s *State, c *callCtx) (Value, []*State, bool) {
		x := c.args[0].(*term.Term)
		sg := c.args[1].(*term.Term)
		if !sg.IsConst() {
			in.unsup("math.IsInf with symbolic sign")
		}
		inf := in.ts.FIsInf(x)
		zero := in.ts.FConst(64, 0)
		switch signedVal(sg.Val, 64) {
		case 0:
			return inf, nil, true
		case 1:
			return in.ts.And(inf, in.ts.FCmp(term.OpFpLt, zero, x)), nil, true
		default:
			return in.ts.And(inf, in.ts.FCmp(term.OpFpLt, x, zero)), nil, true
		}
	})
	reg("math.Inf", func(in *Interp, s *State, c *callCtx) (Value, []*State, bool) {
		sg := c.args[0].(*term.Term)
		if !sg.IsConst() {
			in.unsup("math.Inf symbolic")
		}
		if signedVal(sg.Val, 64) >= 0 {
			return in.ts.FConst(64, math.Inf(1)), nil, true
		}
		return in.ts.FConst(64, math.Inf(-1)), nil, true
	})
	// math.Pow10 reads a table that package math fills in its init (not run): computed natively
	reg("math.Pow10", func(in *Interp, s *State, c *callCtx) (Value, []*State, bool) {
		n := c.args[0].(*term.Term)
		if !n.IsConst() {
			in.unsup("math.Pow10 of symbolic value")
		}
		return in.ts.FConst(64, math.Pow10(int(signedVal(n.Val, 64)))), nil, true
	})
	reg("math.NaN", func(in *Interp, s *State, c *callCtx) (Value, []*State, bool) {
		return in.ts.FConst(64, math.NaN()), nil, true
	})
	reg("math.Abs", func(in *Interp, s *State, c *callCtx) (Value, []*State, bool) {
		x := c.args[0].(*term.Term)
		if x.IsConst() {
			return in.ts.FConst(64, math.Abs(math.Float64frombits(x.Val))), nil, true
		}
		in.unsup("math.Abs symbolic")
		return nil, nil, true
	})
	for _, n := range []string{"math.Floor", "math.Ceil", "math.Sqrt", "math.Log", "math.Pow", "math.Round", "math.Trunc", "math.Log2", "math.Log10", "math.Exp"} {
		n := n
		reg(n, func(in *Interp, s *State, c *callCtx) (Value, []*State, bool) {
			fl := make([]float64, len(c.args))
			for i, a := range c.args {
				t := a.(*term.Term)
				if !t.IsConst() {
					in.unsup("%s of symbolic value", n)
				}
				fl[i] = math.Float64frombits(t.Val)
			}
			var r float64
			switch n {
			case "math.Floor":
				r = math.Floor(fl[0])
			case "math.Ceil":
				r = math.Ceil(fl[0])
			case "math.Sqrt":
				r = math.Sqrt(fl[0])
			case "math.Log":
				r = math.Log(fl[0])
			case "math.Pow":
				r = math.Pow(fl[0], fl[1])
			case "math.Round":
				r = math.Round(fl[0])
			case "math.Trunc":
				r = math.Trunc(fl[0])
			case "math.Log2":
				r = math.Log2(fl[0])
			case "math.Log10":
				r = math.Log10(fl[0])
			case "math.Exp":
				r = math.Exp(fl[0])
			}
			return in.ts.FConst(64, r), nil, true
		})
	}

	// ---- fmt / errors
	reg("fmt.Sprintf", func(in *Interp, s *State, c *callCtx) (Value, []*State, bool) {
		return in.sprintf(s, c.args), nil, true
	})
	reg("fmt.Sprint", func(in *Interp, s *State, c *callCtx) (Value, []*State, bool) {
		return &Str{S: "<fmt.Sprint>"}, nil, true
	})
	reg("fmt.Errorf", func(in *Interp, s *State, c *callCtx) (Value, []*State, bool) {
		msg := in.sprintf(s, c.args)
		var wrapped Value = &Iface{}
		format := c.args[0].(*Str)
		if format.B == nil && strings.Contains(format.S, "%w") {
			va := c.args[1].(*Slice)
			for i := 0; i < va.Len; i++ {
				e := in.load(s, va.Arr.child(PathElem{Idx: va.Off + i})).(*Iface)
				if e.T != nil && types.Implements(e.T, errorIface) {
					wrapped = e
					break
				}
			}
		}
		return in.mkFmtErr(s, msg, wrapped), nil, true
	})
	for _, n := range []string{"fmt.Println", "fmt.Printf", "fmt.Print", "fmt.Fprintf", "fmt.Fprintln", "fmt.Fprint"} {
		reg(n, func(in *Interp, s *State, c *callCtx) (Value, []*State, bool) {
			return &Agg{Elems: []Value{in.ts.Const(64, 0), &Iface{}}}, nil, true
		})
	}
	four := func(in *Interp, s *State, c *callCtx) (Value, []*State, bool) { return in.ts.Const(64, 4), nil, true }
	reg("runtime.GOMAXPROCS", four)
	reg("runtime.NumCPU", four)
	reg("runtime.NumGoroutine", four)
	reg("internal/bytealg.MakeNoZero", func(in *Interp, s *State, c *callCtx) (Value, []*State, bool) {
		n := c.args[0].(*term.Term)
		if !n.IsConst() {
			in.unsup("MakeNoZero with symbolic length")
		}
		arr := &Agg{Elems: make([]Value, int(n.Val))}
		z := in.ts.Const(8, 0)
		for i := range arr.Elems {
			arr.Elems[i] = z
		}
		return &Slice{Arr: in.alloc(s, arr), Len: int(n.Val), Cap: int(n.Val)}, nil, true
	})
	// repo helpers that reinterpret slice/string headers through unsafe.Pointer (value copies here:
	// later writes through the slice are not seen through the string)
	reg("github.com/ozontech/seq-db/util.ByteToStringUnsafe", func(in *Interp, s *State, c *callCtx) (Value, []*State, bool) {
		sl := c.args[0].(*Slice)
		if in.cfg.Models["unsafe-string-alias"] && sl.Len > 0 {
			// the string shares the slice's bytes: later writes through the slice show through it
			return &Str{A: &Slice{Arr: sl.Arr, Off: sl.Off, Len: sl.Len, Cap: sl.Len}}, nil, true
		}
		return in.sliceToStr(s, sl), nil, true
	})
	reg("github.com/ozontech/seq-db/util.StringToByteUnsafe", func(in *Interp, s *State, c *callCtx) (Value, []*State, bool) {
		bs := in.strBytes(c.args[0].(*Str))
		arr := &Agg{Elems: make([]Value, len(bs))}
		for i, b := range bs {
			arr.Elems[i] = b
		}
		return &Slice{Arr: in.alloc(s, arr), Len: len(bs), Cap: len(bs)}, nil, true
	})
	reg("internal/abi.NoEscape", func(in *Interp, s *State, c *callCtx) (Value, []*State, bool) { return c.args[0], nil, true })
	reg("internal/abi.Escape", func(in *Interp, s *State, c *callCtx) (Value, []*State, bool) { return c.args[0], nil, true })
	reg("maps.clone", func(in *Interp, s *State, c *callCtx) (Value, []*State, bool) {
		iv := c.args[0].(*Iface)
		m, ok := iv.V.(*MapRef)
		if !ok || m.Obj < 0 {
			return iv, nil, true
		}
		md := in.mapData(s, m)
		nd := &MapData{Entries: append([]mapEntry(nil), md.Entries...)}
		return &Iface{T: iv.T, V: &MapRef{Obj: in.alloc(s, nd).Obj}}, nil, true
	})
	reg("runtime.KeepAlive", nop)
	reg("runtime.SetFinalizer", nop)
	reg("time.Sleep", nop)
	reg("time.Now", func(in *Interp, s *State, c *callCtx) (Value, []*State, bool) {
		return in.zero(c.fn.Signature.Results().At(0).Type()), nil, true
	})
	reg("time.Since", func(in *Interp, s *State, c *callCtx) (Value, []*State, bool) {
		return in.ts.Const(64, 0), nil, true
	})
	reg("time.Until", func(in *Interp, s *State, c *callCtx) (Value, []*State, bool) {
		return in.ts.Const(64, 0), nil, true
	})
	reg("os.Exit", func(in *Interp, s *State, c *callCtx) (Value, []*State, bool) {
		s.status = Fatal
		s.msg = "os.Exit" + in.where(s)
		return nil, nil, true
	})

	// ---- unsafe helpers of the repo and of std

	// ---- context: no cancellation, no deadline
	ctxPair := func(in *Interp, s *State, c *callCtx) (Value, []*State, bool) {
		return &Agg{Elems: []Value{c.args[0], &Func{Intr: "noop"}}}, nil, true
	}
	reg("context.WithCancel", ctxPair)
	reg("context.WithTimeout", ctxPair)
	reg("context.WithDeadline", ctxPair)
	reg("context.WithValue", func(in *Interp, s *State, c *callCtx) (Value, []*State, bool) { return c.args[0], nil, true })

	// ---- unicode (exact: decided by the host's tables for a concrete rune; symbolic runes are
	// concretized by forking through decide on range membership)
	uni := func(name string, pred func(rune) bool) {
		reg(name, func(in *Interp, s *State, c *callCtx) (Value, []*State, bool) {
			r := c.args[0].(*term.Term)
			if r.IsConst() {
				return in.ts.BoolC(pred(rune(int32(r.Val)))), nil, true
			}
			return in.rangePred(name, r, pred), nil, true
		})
	}
	uni("unicode.IsLetter", unicode.IsLetter)
	uni("unicode.IsNumber", unicode.IsNumber)
	uni("unicode.IsDigit", unicode.IsDigit)
	uni("unicode.IsSpace", unicode.IsSpace)
	uni("unicode.IsUpper", unicode.IsUpper)
	uni("unicode.IsLower", unicode.IsLower)
	uni("unicode.IsPrint", unicode.IsPrint)
	uni("unicode.IsPunct", unicode.IsPunct)
	uni("unicode.IsControl", unicode.IsControl)
	cases := func(name string, mapf func(rune) rune) {
		reg(name, func(in *Interp, s *State, c *callCtx) (Value, []*State, bool) {
			r := c.args[0].(*term.Term)
			if r.IsConst() {
				return in.ts.Const(32, uint64(uint32(mapf(rune(int32(r.Val)))))), nil, true
			}
			// case split on the interval of constant delta that contains r (fork per feasible interval)
			ivs := in.mapIntervals(name, mapf)
			var v uint64
			if in.modelValid(s) {
				if mv, ok := term.Eval(r, s.model, map[int]uint64{}); ok {
					v = mv
				} else {
					s.model = nil
				}
			}
			if s.model == nil || !in.modelValid(s) {
				res, err := in.check(s)
				if err != nil || res != smt.Sat {
					if res == smt.Unsat {
						s.status = AssumeFalse
						return nil, nil, true
					}
					in.unsup("solver unknown in %s", name)
				}
				m, merr := in.sol.ModelIDs(in.traceVars(s))
				in.sol.Pop()
				if merr != nil {
					in.unsup("%s: %v", name, merr)
				}
				s.model, s.modelPC = m, s.pc
				mv, ok := term.Eval(r, s.model, map[int]uint64{})
				if !ok {
					in.unsup("%s: cannot evaluate the argument under the model", name)
				}
				v = mv
			}
			sv := int64(int32(uint32(v)))
			// find interval (intervals are over the signed rune value)
			lo, hi, delta := int64(-1<<31), int64(1<<31-1), int32(0)
			for _, iv := range ivs {
				if sv >= int64(iv.lo) && sv <= int64(iv.hi) {
					lo, hi, delta = int64(iv.lo), int64(iv.hi), iv.delta
					break
				}
			}
			cond := in.ts.And(in.ts.Sle(in.ts.Const(32, uint64(uint32(int32(lo)))), r), in.ts.Sle(r, in.ts.Const(32, uint64(uint32(int32(hi))))))
			ok, o := in.decide(s, cond)
			if o != nil {
				return nil, one(o), false
			}
			if !ok {
				in.unsup("%s: model value outside its own interval", name)
			}
			return in.ts.Add(r, in.ts.Const(32, uint64(uint32(delta)))), nil, true
		})
	}
	cases("unicode.ToTitle", unicode.ToTitle)
	reg("unicode.To", func(in *Interp, s *State, c *callCtx) (Value, []*State, bool) {
		k := c.args[0].(*term.Term)
		if !k.IsConst() {
			in.unsup("unicode.To with symbolic case")
		}
		name := map[uint64]string{unicode.UpperCase: "unicode.ToUpper", unicode.LowerCase: "unicode.ToLower", unicode.TitleCase: "unicode.ToTitle"}[k.Val]
		h := intrinsics[name]
		if h == nil {
			in.unsup("unicode.To(%d)", k.Val)
		}
		c2 := *c
		c2.args = c.args[1:]
		return h(in, s, &c2)
	})
	cases("unicode.ToLower", unicode.ToLower)
	cases("unicode.ToUpper", unicode.ToUpper)
	cases("unicode.SimpleFold", unicode.SimpleFold)
}

var errorIface = types.Universe.Lookup("error").Type().Underlying().(*types.Interface)

func (in *Interp) fpBits(s *State, f *term.Term) *term.Term {
	if f.IsConst() {
		return in.ts.Const(f.S.W, f.Val)
	}
	if f.Op == term.OpFpFromBits {
		return f.Args[0]
	}
	// fresh bits b with to_fp(b) = f (structural equality); one b per float term and path
	if s.uf == nil {
		s.uf = map[string][]ufApp{}
	}
	key := fmt.Sprintf("$fpbits%d", f.ID)
	if a := s.uf[key]; len(a) > 0 {
		return a[0].res
	}
	b := in.internalVar(f.S.W)
	in.addPC(s, in.ts.Eq(in.ts.FFromBits(b), f))
	s.uf[key] = []ufApp{{res: b}}
	return b
}

func (in *Interp) sprintf(s *State, args []Value) *Str {
	format, ok := args[0].(*Str)
	if ok {
		format = in.mat(format)
	}
	if !ok || format.B != nil {
		return &Str{S: "<fmt>"}
	}
	// render concrete arguments where easy, opaque otherwise
	va, _ := args[1].(*Slice)
	var parts []string
	if va != nil {
		for i := 0; i < va.Len; i++ {
			e, _ := in.load(s, va.Arr.child(PathElem{Idx: va.Off + i})).(*Iface)
			if e == nil || e.T == nil {
				parts = append(parts, "nil")
				continue
			}
			switch v := e.V.(type) {
			case *Str:
				v = in.mat(v)
				if v.B == nil {
					parts = append(parts, v.S)
				} else {
					parts = append(parts, "<sym>")
				}
			case *term.Term:
				if v.IsConst() {
					parts = append(parts, fmt.Sprint(signedVal(v.Val, v.S.W)))
				} else {
					parts = append(parts, "<sym>")
				}
			default:
				parts = append(parts, "<"+e.T.String()+">")
			}
		}
	}
	return &Str{S: "fmt(" + format.S + ")[" + strings.Join(parts, ",") + "]"}
}

func (in *Interp) mkFmtErr(s *State, msg *Str, wrapped Value) Value {
	tn := in.rtPkg.Type("FmtErr")
	if tn == nil {
		in.unsup("verifrt.FmtErr missing")
	}
	p := in.alloc(s, &Agg{Elems: []Value{msg, wrapped}})
	return &Iface{T: types.NewPointer(tn.Type()), V: p}
}

// rangePred builds an exact membership term for a unicode predicate from the host tables.
func (in *Interp) rangePred(name string, r *term.Term, pred func(rune) bool) *term.Term {
	ck := predKey{name, r.ID}
	if t, ok := in.predTerms[ck]; ok {
		return t
	}
	t := in.rangePred0(name, r, pred)
	if in.predTerms == nil {
		in.predTerms = map[predKey]*term.Term{}
	}
	in.predTerms[ck] = t
	return t
}

type predKey struct {
	name string
	id   int
}

func (in *Interp) rangePred0(name string, r *term.Term, pred func(rune) bool) *term.Term {
	ranges := in.predRanges(name, pred)
	// only ranges that the value can reach (x < 2^MaxBits)
	if mb := r.MaxBits(); mb < 32 {
		lim := rune(int64(1)<<uint(mb) - 1)
		var rs [][2]rune
		for _, rg := range ranges {
			if rg[0] <= lim {
				rs = append(rs, rg)
			}
		}
		ranges = rs
	}
	res := in.ts.BoolC(false)
	for _, rg := range ranges {
		lo := in.ts.Const(32, uint64(rg[0]))
		hi := in.ts.Const(32, uint64(rg[1]))
		res = in.ts.Or(res, in.ts.And(in.ts.Ule(lo, r), in.ts.Ule(r, hi)))
	}
	return res
}

var predCache = map[string][][2]rune{}
var tabMu sync.Mutex

func (in *Interp) predRanges(name string, pred func(rune) bool) [][2]rune {
	tabMu.Lock()
	defer tabMu.Unlock()
	if rg, ok := predCache[name]; ok {
		return rg
	}
	var out [][2]rune
	start := rune(-1)
	for r := rune(0); r <= unicode.MaxRune+1; r++ {
		p := r <= unicode.MaxRune && pred(r)
		if p && start < 0 {
			start = r
		}
		if !p && start >= 0 {
			out = append(out, [2]rune{start, r - 1})
			start = -1
		}
	}
	predCache[name] = out
	return out
}

type mapRange struct {
	lo, hi rune
	delta  int32
}

var mapCache = map[string][]mapRange{}

// rangeMap builds an exact term for a rune->rune mapping as maximal runs of constant delta.
func (in *Interp) rangeMap(name string, r *term.Term, f func(rune) rune) *term.Term {
	tabMu.Lock()
	rs, ok := mapCache[name]
	if !ok {
		var cur *mapRange
		for x := rune(0); x <= unicode.MaxRune; x++ {
			d := int32(f(x) - x)
			if d == 0 {
				cur = nil
				continue
			}
			if cur != nil && cur.delta == d && cur.hi == x-1 {
				cur.hi = x
				continue
			}
			rs = append(rs, mapRange{x, x, d})
			cur = &rs[len(rs)-1]
		}
		mapCache[name] = rs
	}
	tabMu.Unlock()
	res := r
	// negative runes and > MaxRune map to themselves (ToLower, ToUpper, SimpleFold alike)
	mb := r.MaxBits()
	domMax := int64(1)<<32 - 1
	if mb <= 21 {
		domMax = int64(1)<<uint(mb) - 1
	}
	maxOut := domMax
	for i := len(rs) - 1; i >= 0; i-- {
		m := rs[i]
		if int64(m.lo) > domMax {
			continue
		}
		hi := int64(m.hi)
		if hi > domMax {
			hi = domMax
		}
		if o := hi + int64(m.delta); o > maxOut {
			maxOut = o
		}
		c := in.ts.And(in.ts.Ule(in.ts.Const(32, uint64(m.lo)), r), in.ts.Ule(r, in.ts.Const(32, uint64(m.hi))))
		res = in.ts.Ite(c, in.ts.Add(r, in.ts.Const(32, uint64(uint32(m.delta)))), res)
	}
	if mb <= 21 {
		// the result is < 2^k: state it with an identity mask so that later folding sees the bound
		k := 0
		for int64(1)<<uint(k) <= maxOut {
			k++
		}
		if k < 32 {
			res = in.ts.BAnd(res, in.ts.Const(32, uint64(1)<<uint(k)-1))
		}
	}
	return res
}

// mapIntervals partitions the whole int32 range into maximal intervals on which f(x)-x is constant.
func (in *Interp) mapIntervals(name string, f func(rune) rune) []mapRange {
	tabMu.Lock()
	defer tabMu.Unlock()
	if iv, ok := ivCache[name]; ok {
		return iv
	}
	var out []mapRange
	out = append(out, mapRange{lo: -1 << 31, hi: -1, delta: 0})
	cur := mapRange{lo: 0, hi: 0, delta: int32(f(0) - 0)}
	for x := rune(1); x <= unicode.MaxRune; x++ {
		d := int32(f(x) - x)
		if d == cur.delta {
			cur.hi = x
			continue
		}
		out = append(out, cur)
		cur = mapRange{lo: x, hi: x, delta: d}
	}
	out = append(out, cur)
	out = append(out, mapRange{lo: unicode.MaxRune + 1, hi: 1<<31 - 1, delta: 0})
	// merge neighbours with equal delta
	var m []mapRange
	for _, r := range out {
		if len(m) > 0 && m[len(m)-1].delta == r.delta && m[len(m)-1].hi+1 == r.lo {
			m[len(m)-1].hi = r.hi
			continue
		}
		m = append(m, r)
	}
	ivCache[name] = m
	return m
}

var ivCache = map[string][]mapRange{}

// ufApply: uninterpreted function via Ackermann expansion over the applications seen on this path.
func (in *Interp) ufApply(s *State, name string, args []*term.Term, w int) *term.Term {
	if s.uf == nil {
		s.uf = map[string][]ufApp{}
	}
	for _, a := range s.uf[name] {
		same := true
		for i := range args {
			if a.args[i] != args[i] {
				same = false
			}
		}
		if same {
			return a.res
		}
	}
	res := in.internalVar(w)
	for _, a := range s.uf[name] {
		eq := in.ts.BoolC(true)
		for i := range args {
			eq = in.ts.And(eq, in.ts.Eq(a.args[i], args[i]))
		}
		in.addPC(s, in.ts.Implies(eq, in.ts.Eq(a.res, res)))
	}
	s.uf[name] = append(s.uf[name], ufApp{args: args, res: res})
	return res
}

// namedModel renders the state's cached model by variable name (for replay vectors).
func (in *Interp) namedModel(s *State) map[string]uint64 {
	m := map[string]uint64{}
	for _, r := range s.trace {
		if r.Kind == "v" {
			m[r.Var.Name] = s.model[r.Var.ID]
		}
	}
	return m
}

// optIntrinsics are models a harness opts into by name (spec field "models"); each replaces a
// library function by its documented meaning on a stated domain, and is listed as an assumption.
var optIntrinsics = map[string]intrFn{
	// (time.Time).Sub as the exact difference in nanoseconds of two wall-clock instants (no
	// monotonic reading, no saturation): valid when both instants carry no monotonic clock reading
	// (true for values made by time.Unix*/UnixMilli and their Add/UTC) and lie within +-146 years
	// of each other.  The real body computes the same number and then re-checks it through
	// u.Add(d).Equal(t), which only matters for the saturating cases.
	"(time.Time).Sub": func(in *Interp, s *State, c *callCtx) (Value, []*State, bool) {
		t, u := c.args[0].(*Agg), c.args[1].(*Agg)
		const nsecMask = 1<<30 - 1
		for _, x := range []*Agg{t, u} {
			mono := in.ts.BAnd(x.Elems[0].(*term.Term), in.ts.Const(64, 1<<63))
			ok, o := in.decide(s, in.ts.Eq(mono, in.ts.Const(64, 0)))
			if o != nil || !ok {
				in.unsup("time.Sub model: instant may carry a monotonic clock reading")
			}
		}
		nsec := func(x *Agg) *term.Term { return in.ts.BAnd(x.Elems[0].(*term.Term), in.ts.Const(64, nsecMask)) }
		dsec := in.ts.Sub(t.Elems[1].(*term.Term), u.Elems[1].(*term.Term))
		d := in.ts.Add(in.ts.Mul(dsec, in.ts.Const(64, 1000000000)), in.ts.Sub(nsec(t), nsec(u)))
		return d, nil, true
	},
}

// timeMsModel (spec: models ["time-as-milliseconds"]): package time for code that only handles
// wall-clock instants with millisecond resolution.  A time.Time made by time.UnixMilli is
// represented by its millisecond count (field ext; wall = 0, loc = nil); UTC, Before, After,
// Equal, Compare, UnixMilli, Sub and Add (of whole milliseconds) are computed on that count,
// which is what the real methods return for such values as long as no result saturates
// (instants within +-146 years of each other).  Any other method of time.Time on such a value
// would be wrong: the harness that opts in must not reach one (the evidence lists the
// functions encoded).
var timeMsModel = map[string]intrFn{}

func init() {
	ext := func(v Value) *term.Term { return v.(*Agg).Elems[1].(*term.Term) }
	timeMsModel["time.UnixMilli"] = func(in *Interp, s *State, c *callCtx) (Value, []*State, bool) {
		z := in.zero(c.fn.Signature.Results().At(0).Type()).(*Agg)
		n := &Agg{Elems: append([]Value(nil), z.Elems...)}
		n.Elems[1] = c.args[0].(*term.Term)
		return n, nil, true
	}
	timeMsModel["(time.Time).UTC"] = func(in *Interp, s *State, c *callCtx) (Value, []*State, bool) {
		return c.args[0], nil, true
	}
	timeMsModel["(time.Time).UnixMilli"] = func(in *Interp, s *State, c *callCtx) (Value, []*State, bool) {
		return ext(c.args[0]), nil, true
	}
	// UnixNano of such a value is its millisecond count times 10^6 modulo 2^64, exactly what the
	// real method computes (sec*1e9 + nsec in wrapping int64 arithmetic).
	timeMsModel["(time.Time).UnixNano"] = func(in *Interp, s *State, c *callCtx) (Value, []*State, bool) {
		return in.ts.Mul(ext(c.args[0]), in.ts.Const(64, 1000000)), nil, true
	}
	timeMsModel["(time.Time).Before"] = func(in *Interp, s *State, c *callCtx) (Value, []*State, bool) {
		return in.ts.Slt(ext(c.args[0]), ext(c.args[1])), nil, true
	}
	timeMsModel["(time.Time).After"] = func(in *Interp, s *State, c *callCtx) (Value, []*State, bool) {
		return in.ts.Slt(ext(c.args[1]), ext(c.args[0])), nil, true
	}
	timeMsModel["(time.Time).Equal"] = func(in *Interp, s *State, c *callCtx) (Value, []*State, bool) {
		return in.ts.Eq(ext(c.args[0]), ext(c.args[1])), nil, true
	}
	timeMsModel["(time.Time).Sub"] = func(in *Interp, s *State, c *callCtx) (Value, []*State, bool) {
		d := in.ts.Sub(ext(c.args[0]), ext(c.args[1]))
		return in.ts.Mul(d, in.ts.Const(64, 1000000)), nil, true
	}
	timeMsModel["(time.Time).Add"] = func(in *Interp, s *State, c *callCtx) (Value, []*State, bool) {
		d := c.args[1].(*term.Term)
		if !d.IsConst() || int64(d.Val)%1000000 != 0 {
			in.unsup("time-as-milliseconds: Add of a duration that is not a constant number of milliseconds")
		}
		t := c.args[0].(*Agg)
		n := &Agg{Elems: append([]Value(nil), t.Elems...)}
		n.Elems[1] = in.ts.Add(ext(t), in.ts.Const(64, uint64(int64(d.Val)/1000000)))
		return n, nil, true
	}
}
