package interp

import (
	"fmt"
	"go/types"

	"golang.org/x/tools/go/ssa"

	"gosym/term"
)

// Value is one of: *term.Term (bool / int / float), *Ptr, *Agg, *Slice, *Str,
// *Iface, *Func, *MapRef, *Opaque, *Iter.
type Value interface{}

type PathElem struct {
	Idx int
	Sym *term.Term // if non-nil: symbolic index (64-bit)
}

type Ptr struct {
	Obj  int // -1 = nil
	Path []PathElem
}

func nilPtr() *Ptr { return &Ptr{Obj: -1} }

func (p *Ptr) child(e PathElem) *Ptr {
	np := make([]PathElem, len(p.Path)+1)
	copy(np, p.Path)
	np[len(p.Path)] = e
	return &Ptr{Obj: p.Obj, Path: np}
}

func (p *Ptr) key() string {
	s := fmt.Sprint(p.Obj)
	for _, e := range p.Path {
		if e.Sym != nil {
			s += fmt.Sprintf(".s%d", e.Sym.ID)
		} else {
			s += fmt.Sprintf(".%d", e.Idx)
		}
	}
	return s
}

// Agg is an immutable aggregate (struct, array, tuple).
type Agg struct{ Elems []Value }

type Slice struct {
	Arr           *Ptr // pointer to the backing array aggregate; nil => nil slice
	Off, Len, Cap int
}

// Str is a string of concrete length. B == nil means the concrete string S.
type Str struct {
	S string
	B []*term.Term
	A *Slice // opt-in model "unsafe-string-alias": the string shares the bytes of this slice and is read when it is used
}

type Iface struct {
	T types.Type // nil => nil interface
	V Value
}

type Func struct {
	Fn   *ssa.Function
	Env  []Value
	Intr string // non-empty: engine-provided function value (e.g. bound intrinsic)
}

type Builtin struct{ Name string }

type MapRef struct{ Obj int } // -1 nil

type mapEntry struct {
	K, V Value
	Dead bool
}
type MapData struct{ Entries []mapEntry }

// Opaque is the result of a black-holed library call.
type Opaque struct{ What string }

// Iter is the state of a range over map / string.
type Iter struct {
	Obj int // heap object holding *IterData
}
type IterData struct {
	Keys, Vals []Value
	Str        *Str
	Pos        int
}

type ChanData struct {
	Buf    []Value
	Cap    int
	Closed bool
	// rendezvous for unbuffered channels: pending senders
	SendQ []chanWaiter
}
type chanWaiter struct {
	Thread int
	V      Value
}

func intWidth(b *types.Basic) int {
	switch b.Kind() {
	case types.Int8, types.Uint8:
		return 8
	case types.Int16, types.Uint16:
		return 16
	case types.Int32, types.Uint32:
		return 32
	case types.Int, types.Uint, types.Int64, types.Uint64, types.Uintptr, types.UntypedInt, types.UntypedRune:
		return 64
	}
	panic(fmt.Sprintf("intWidth: %v", b))
}

func isSigned(t types.Type) bool {
	b, ok := t.Underlying().(*types.Basic)
	return ok && b.Info()&types.IsInteger != 0 && b.Info()&types.IsUnsigned == 0
}

func isFloat(t types.Type) bool {
	b, ok := t.Underlying().(*types.Basic)
	return ok && b.Info()&types.IsFloat != 0
}

func floatWidth(t types.Type) int {
	b := t.Underlying().(*types.Basic)
	if b.Kind() == types.Float32 {
		return 32
	}
	return 64
}

func (in *Interp) zero(t types.Type) Value {
	switch u := t.Underlying().(type) {
	case *types.Basic:
		switch {
		case u.Info()&types.IsBoolean != 0:
			return in.ts.BoolC(false)
		case u.Info()&types.IsInteger != 0:
			return in.ts.Const(intWidth(u), 0)
		case u.Info()&types.IsFloat != 0:
			return in.ts.FConst(floatWidth(t), 0)
		case u.Info()&types.IsString != 0:
			return &Str{}
		case u.Kind() == types.UnsafePointer:
			return nilPtr()
		case u.Kind() == types.UntypedNil:
			return nilPtr()
		}
		in.unsup("zero: unsupported basic %v", u)
	case *types.Pointer:
		return nilPtr()
	case *types.Struct:
		a := &Agg{Elems: make([]Value, u.NumFields())}
		for i := range a.Elems {
			a.Elems[i] = in.zero(u.Field(i).Type())
		}
		return a
	case *types.Array:
		a := &Agg{Elems: make([]Value, u.Len())}
		if u.Len() > 0 {
			z := in.zero(u.Elem())
			for i := range a.Elems {
				a.Elems[i] = z
			}
		}
		return a
	case *types.Slice:
		return &Slice{}
	case *types.Interface:
		return &Iface{}
	case *types.Signature:
		return &Func{}
	case *types.Map:
		return &MapRef{Obj: -1}
	case *types.Tuple:
		a := &Agg{Elems: make([]Value, u.Len())}
		for i := range a.Elems {
			a.Elems[i] = in.zero(u.At(i).Type())
		}
		return a
	case *types.Chan:
		return nilPtr()
	}
	in.unsup("zero: unsupported type %v", t)
	return nil
}
