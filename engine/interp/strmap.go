package interp

import (
	"fmt"
	"go/types"
	"unicode/utf8"

	"golang.org/x/tools/go/ssa"

	"gosym/term"
)

// ---------------------------------------------------------------- strings

// mat reads an aliasing string (util.ByteToStringUnsafe under the model "unsafe-string-alias") from
// the bytes it shares, as they are now.
func (in *Interp) mat(x *Str) *Str {
	if x.A == nil {
		return x
	}
	if x.A.Len == 0 {
		return &Str{}
	}
	arr := in.load(in.curState, x.A.Arr).(*Agg)
	out := &Str{B: make([]*term.Term, x.A.Len)}
	allc := true
	for i := 0; i < x.A.Len; i++ {
		out.B[i] = arr.Elems[x.A.Off+i].(*term.Term)
		if !out.B[i].IsConst() {
			allc = false
		}
	}
	if allc {
		bs := make([]byte, len(out.B))
		for i, b := range out.B {
			bs[i] = byte(b.Val)
		}
		return &Str{S: string(bs)}
	}
	return out
}

func (in *Interp) strLen(x *Str) int {
	if x.A != nil {
		return x.A.Len
	}
	if x.B != nil {
		return len(x.B)
	}
	return len(x.S)
}

func (in *Interp) strBytes(x *Str) []*term.Term {
	x = in.mat(x)
	if x.B != nil {
		return x.B
	}
	out := make([]*term.Term, len(x.S))
	for i := 0; i < len(x.S); i++ {
		out[i] = in.ts.Const(8, uint64(x.S[i]))
	}
	return out
}

// norm turns an all-constant symbolic string into a concrete one.
func (in *Interp) norm(x *Str) *Str {
	if x.A != nil || x.B == nil {
		return x
	}
	bs := make([]byte, len(x.B))
	for i, b := range x.B {
		if !b.IsConst() {
			return x
		}
		bs[i] = byte(b.Val)
	}
	return &Str{S: string(bs)}
}

func (in *Interp) strConcat(a, b *Str) *Str {
	a, b = in.mat(a), in.mat(b)
	if a.B == nil && b.B == nil {
		return &Str{S: a.S + b.S}
	}
	if in.strLen(a) == 0 {
		return b
	}
	if in.strLen(b) == 0 {
		return a
	}
	return &Str{B: append(append([]*term.Term(nil), in.strBytes(a)...), in.strBytes(b)...)}
}

func (in *Interp) substr(a *Str, lo, hi int) *Str {
	if a.A != nil { // a substring of an aliasing string aliases too
		return &Str{A: &Slice{Arr: a.A.Arr, Off: a.A.Off + lo, Len: hi - lo, Cap: hi - lo}}
	}
	if a.B == nil {
		return &Str{S: a.S[lo:hi]}
	}
	if lo == hi {
		return &Str{}
	}
	return in.norm(&Str{B: a.B[lo:hi]})
}

func (in *Interp) strEq(a, b *Str) *term.Term {
	if in.strLen(a) != in.strLen(b) {
		return in.ts.BoolC(false)
	}
	a, b = in.mat(a), in.mat(b)
	if a.B == nil && b.B == nil {
		return in.ts.BoolC(a.S == b.S)
	}
	ab, bb := in.strBytes(a), in.strBytes(b)
	r := in.ts.BoolC(true)
	for i := range ab {
		r = in.ts.And(r, in.ts.Eq(ab[i], bb[i]))
	}
	return r
}

// strLess: a < b (or a <= b) lexicographically, as a term.
func (in *Interp) strLess(a, b *Str, orEq bool) *term.Term {
	a, b = in.mat(a), in.mat(b)
	if a.B == nil && b.B == nil {
		if orEq {
			return in.ts.BoolC(a.S <= b.S)
		}
		return in.ts.BoolC(a.S < b.S)
	}
	ab, bb := in.strBytes(a), in.strBytes(b)
	n := len(ab)
	if len(bb) < n {
		n = len(bb)
	}
	// result when common prefix equal
	var r *term.Term
	if orEq {
		r = in.ts.BoolC(len(ab) <= len(bb))
	} else {
		r = in.ts.BoolC(len(ab) < len(bb))
	}
	for i := n - 1; i >= 0; i-- {
		r = in.ts.Ite(in.ts.Eq(ab[i], bb[i]), r, in.ts.Ult(ab[i], bb[i]))
	}
	return r
}

func (in *Interp) sliceToStr(s *State, sl *Slice) *Str {
	if sl.Len == 0 {
		return &Str{}
	}
	out := &Str{B: make([]*term.Term, sl.Len)}
	arr := in.load(s, sl.Arr).(*Agg)
	for i := 0; i < sl.Len; i++ {
		out.B[i] = arr.Elems[sl.Off+i].(*term.Term)
	}
	return in.norm(out)
}

func (in *Interp) strIndex(s *State, f *Frame, x ssa.Value, str *Str, index ssa.Value) []*State {
	str = in.mat(str)
	idx := in.ts.Resize(in.get(s, f, index).(*term.Term), 64, isSigned(index.Type()))
	n := in.strLen(str)
	if idx.IsConst() {
		i := int(int64(idx.Val))
		if i < 0 || i >= n {
			panic(goPanic{msg: fmt.Sprintf("index out of range [%d] with length %d (string)", i, n)})
		}
		if str.B == nil {
			f.set(x, in.ts.Const(8, uint64(str.S[i])))
		} else {
			f.set(x, str.B[i])
		}
		f.ip++
		return nil
	}
	inb := in.ts.Ult(idx, in.ts.Const(64, uint64(n)))
	ok, o := in.decide(s, inb)
	if o != nil {
		return one(o)
	}
	if !ok {
		panic(goPanic{msg: fmt.Sprintf("index out of range (symbolic) with length %d (string)", n)})
	}
	if n > 256 {
		// long (table) string indexed symbolically: concretize the index
		_, forks := in.concretize(s, f, index, "string index")
		if forks != nil {
			return forks
		}
		return nil
	}
	bs := in.strBytes(str)
	r := bs[n-1]
	for j := n - 2; j >= 0; j-- {
		r = in.ts.Ite(in.ts.Eq(idx, in.ts.Const(64, uint64(j))), bs[j], r)
	}
	f.set(x, r)
	f.ip++
	return nil
}

// ---------------------------------------------------------------- maps

func (in *Interp) mapData(s *State, m *MapRef) *MapData {
	return in.heapGet(s, m.Obj).(*MapData)
}

// findKey returns the entry index holding key, or -1; forks on undecided equality.
func (in *Interp) findKey(s *State, md *MapData, key Value) (int, *State) {
	for i, e := range md.Entries {
		if e.Dead {
			continue
		}
		eq := in.valueEq(e.K, key)
		v, o := in.decide(s, eq)
		if o != nil {
			return 0, o
		}
		if v {
			return i, nil
		}
	}
	return -1, nil
}

func (in *Interp) lookup(s *State, f *Frame, x *ssa.Lookup) []*State {
	base := in.get(s, f, x.X)
	if str, ok := base.(*Str); ok {
		return in.strIndex(s, f, x, str, x.Index)
	}
	m, ok := base.(*MapRef)
	if !ok {
		in.unsup("Lookup on %T", base)
	}
	vt := x.X.Type().Underlying().(*types.Map).Elem()
	var res Value
	found := false
	if m.Obj >= 0 {
		md := in.mapData(s, m)
		i, o := in.findKey(s, md, in.get(s, f, x.Index))
		if o != nil {
			return one(o)
		}
		if i >= 0 {
			res, found = md.Entries[i].V, true
		}
	}
	if !found {
		res = in.zero(vt)
	}
	if x.CommaOk {
		f.set(x, &Agg{Elems: []Value{res, in.ts.BoolC(found)}})
	} else {
		f.set(x, res)
	}
	f.ip++
	return nil
}

func (in *Interp) mapUpdate(s *State, f *Frame, x *ssa.MapUpdate) []*State {
	m := in.get(s, f, x.Map).(*MapRef)
	if m.Obj < 0 {
		panic(goPanic{msg: "assignment to entry in nil map at " + in.pos(x)})
	}
	md := in.mapData(s, m)
	key := in.get(s, f, x.Key)
	i, o := in.findKey(s, md, key)
	if o != nil {
		return one(o)
	}
	nd := &MapData{Entries: append([]mapEntry(nil), md.Entries...)}
	if i >= 0 {
		nd.Entries[i].V = in.get(s, f, x.Value)
	} else {
		nd.Entries = append(nd.Entries, mapEntry{K: key, V: in.get(s, f, x.Value)})
	}
	s.heap[m.Obj] = nd
	f.ip++
	return nil
}

func (in *Interp) mapDelete(s *State, m *MapRef, key Value) *State {
	if m.Obj < 0 {
		return nil
	}
	md := in.mapData(s, m)
	i, o := in.findKey(s, md, key)
	if o != nil {
		return o
	}
	if i >= 0 {
		nd := &MapData{Entries: append(append([]mapEntry(nil), md.Entries[:i]...), md.Entries[i+1:]...)}
		s.heap[m.Obj] = nd
	}
	return nil
}

func (in *Interp) mapLen(s *State, m *MapRef) int {
	if m.Obj < 0 {
		return 0
	}
	n := 0
	for _, e := range in.mapData(s, m).Entries {
		if !e.Dead {
			n++
		}
	}
	return n
}

// ---------------------------------------------------------------- range / next

func (in *Interp) rangeInstr(s *State, f *Frame, x *ssa.Range) {
	switch b := in.get(s, f, x.X).(type) {
	case *Str:
		f.set(x, &Iter{Obj: in.alloc(s, &IterData{Str: in.mat(b)}).Obj})
	case *MapRef:
		it := &IterData{}
		if b.Obj >= 0 {
			for _, e := range in.mapData(s, b).Entries {
				if !e.Dead {
					it.Keys = append(it.Keys, e.K)
					it.Vals = append(it.Vals, e.V)
				}
			}
		}
		f.set(x, &Iter{Obj: in.alloc(s, it).Obj})
	default:
		in.unsup("range over %T", b)
	}
}

func (in *Interp) nextInstr(s *State, th *Thread, f *Frame, x *ssa.Next) []*State {
	it := in.get(s, f, x.Iter).(*Iter)
	d := in.heapGet(s, it.Obj).(*IterData)
	tup := x.Type().(*types.Tuple)
	if !x.IsString {
		if d.Pos >= len(d.Keys) {
			f.set(x, &Agg{Elems: []Value{in.ts.BoolC(false), in.zeroOrInvalid(tup.At(1).Type()), in.zeroOrInvalid(tup.At(2).Type())}})
		} else {
			f.set(x, &Agg{Elems: []Value{in.ts.BoolC(true), d.Keys[d.Pos], d.Vals[d.Pos]}})
			nd := *d
			nd.Pos++
			s.heap[it.Obj] = &nd
		}
		f.ip++
		return nil
	}
	n := in.strLen(d.Str)
	if d.Pos >= n {
		f.set(x, &Agg{Elems: []Value{in.ts.BoolC(false), in.ts.Const(64, 0), in.ts.Const(32, 0)}})
		f.ip++
		return nil
	}
	bs := in.strBytes(d.Str)
	// concrete fast path
	allc := true
	end := d.Pos + 4
	if end > n {
		end = n
	}
	for _, b := range bs[d.Pos:end] {
		if !b.IsConst() {
			allc = false
		}
	}
	if allc {
		raw := make([]byte, end-d.Pos)
		for i := range raw {
			raw[i] = byte(bs[d.Pos+i].Val)
		}
		r, size := utf8.DecodeRune(raw)
		f.set(x, &Agg{Elems: []Value{in.ts.BoolC(true), in.ts.Const(64, uint64(d.Pos)), in.ts.Const(32, uint64(r))}})
		nd := *d
		nd.Pos += size
		s.heap[it.Obj] = &nd
		f.ip++
		return nil
	}
	// symbolic: call the real utf8.DecodeRuneInString on the rest
	dec := in.prog.ImportedPackage("unicode/utf8")
	if dec == nil {
		in.unsup("range over symbolic string needs unicode/utf8 loaded")
	}
	fn := dec.Func("DecodeRuneInString")
	if tgt, ok := in.cfg.Redirect["unicode/utf8.DecodeRuneInString"]; ok {
		if rf := in.rtPkg.Func(tgt); rf != nil {
			fn = rf
		}
	}
	in.pushFrame(s, th, fn, []Value{in.substr(d.Str, d.Pos, n)}, nil, x, retStrNext)
	return nil
}

func (in *Interp) zeroOrInvalid(t types.Type) Value {
	if b, ok := t.(*types.Basic); ok && b.Kind() == types.Invalid {
		return in.ts.BoolC(false)
	}
	return in.zero(t)
}

func (in *Interp) finishStrNext(s *State, caller *Frame, nextInstr ssa.Value, rv Value) {
	x := nextInstr.(*ssa.Next)
	it := in.get(s, caller, x.Iter).(*Iter)
	d := in.heapGet(s, it.Obj).(*IterData)
	res := rv.(*Agg)
	r := res.Elems[0].(*term.Term)
	size := res.Elems[1].(*term.Term)
	if !size.IsConst() {
		in.unsup("symbolic rune size after DecodeRuneInString")
	}
	caller.set(x, &Agg{Elems: []Value{in.ts.BoolC(true), in.ts.Const(64, uint64(d.Pos)), r}})
	nd := *d
	nd.Pos += int(size.Val)
	s.heap[it.Obj] = &nd
}
