package interp

import (
	"fmt"
	"go/token"
	"go/types"

	"golang.org/x/tools/go/ssa"

	"gosym/term"
)

func one(s *State) []*State {
	if s == nil {
		return nil
	}
	return []*State{s}
}

// step executes one instruction.  A non-nil result means the state forked (or
// must re-execute the instruction); otherwise the instruction completed.
func (in *Interp) step(s *State, th *Thread, f *Frame, instr ssa.Instruction) []*State {
	switch x := instr.(type) {
	case *ssa.DebugRef:
		f.ip++
	case *ssa.Alloc:
		f.set(x, in.alloc(s, in.zero(x.Type().(*types.Pointer).Elem())))
		f.ip++
	case *ssa.Phi:
		for i, p := range f.block.Preds {
			if p == f.prev {
				// phis are evaluated in parallel: read all first
				vals := []Value{in.get(s, f, x.Edges[i])}
				phis := []*ssa.Phi{x}
				j := f.ip + 1
				for ; j < len(f.block.Instrs); j++ {
					ph, ok := f.block.Instrs[j].(*ssa.Phi)
					if !ok {
						break
					}
					phis = append(phis, ph)
					vals = append(vals, in.get(s, f, ph.Edges[i]))
				}
				for k, ph := range phis {
					f.set(ph, vals[k])
				}
				f.ip = j
				return nil
			}
		}
		in.unsup("phi: no pred")
	case *ssa.UnOp:
		return in.unop(s, th, f, x)
	case *ssa.BinOp:
		return in.binopInstr(s, f, x)
	case *ssa.FieldAddr:
		p, ok := in.get(s, f, x.X).(*Ptr)
		if !ok {
			in.unsup("FieldAddr on %T at %s", in.get(s, f, x.X), in.pos(instr))
		}
		if p.Obj < 0 {
			panic(goPanic{msg: "nil pointer dereference at " + in.pos(instr)})
		}
		f.set(x, p.child(PathElem{Idx: x.Field}))
		f.ip++
	case *ssa.Field:
		a, ok := in.get(s, f, x.X).(*Agg)
		if !ok {
			in.unsup("Field on %T at %s", in.get(s, f, x.X), in.pos(instr))
		}
		f.set(x, a.Elems[x.Field])
		f.ip++
	case *ssa.IndexAddr:
		return in.indexAddr(s, f, x)
	case *ssa.Index:
		return in.indexVal(s, f, x)
	case *ssa.Lookup:
		return in.lookup(s, f, x)
	case *ssa.Store:
		p, ok := in.get(s, f, x.Addr).(*Ptr)
		if !ok {
			in.unsup("Store to %T at %s", in.get(s, f, x.Addr), in.pos(instr))
		}
		if p.Obj < 0 {
			panic(goPanic{msg: "nil pointer dereference at " + in.pos(instr)})
		}
		in.store(s, p, in.get(s, f, x.Val))
		f.ip++
	case *ssa.If:
		c := in.get(s, f, x.Cond).(*term.Term)
		v, o := in.decide(s, c)
		if o != nil {
			return one(o)
		}
		if v {
			in.jump(f, f.block.Succs[0])
		} else {
			in.jump(f, f.block.Succs[1])
		}
	case *ssa.Jump:
		in.jump(f, f.block.Succs[0])
	case *ssa.Return:
		var rv Value
		switch len(x.Results) {
		case 0:
		case 1:
			rv = in.get(s, f, x.Results[0])
		default:
			a := &Agg{Elems: make([]Value, len(x.Results))}
			for i, r := range x.Results {
				a.Elems[i] = in.get(s, f, r)
			}
			rv = a
		}
		in.doReturn(s, th, f, rv)
	case *ssa.Call:
		return in.call(s, th, f, x)
	case *ssa.Defer:
		in.deferInstr(s, f, x)
		f.ip++
	case *ssa.RunDefers:
		if len(f.defers) > 0 {
			d := f.defers[len(f.defers)-1]
			f.defers = f.defers[:len(f.defers)-1]
			in.invokeDeferred(s, th, f, d)
			return nil
		}
		f.ip++
	case *ssa.Go:
		in.goInstr(s, f, x)
		f.ip++
	case *ssa.MakeClosure:
		fn := x.Fn.(*ssa.Function)
		env := make([]Value, len(x.Bindings))
		for i, b := range x.Bindings {
			env[i] = in.get(s, f, b)
		}
		f.set(x, &Func{Fn: fn, Env: env})
		f.ip++
	case *ssa.MakeInterface:
		f.set(x, &Iface{T: x.X.Type(), V: in.get(s, f, x.X)})
		f.ip++
	case *ssa.ChangeType:
		f.set(x, in.get(s, f, x.X))
		f.ip++
	case *ssa.ChangeInterface:
		f.set(x, in.get(s, f, x.X))
		f.ip++
	case *ssa.Convert:
		if tgt := in.convertViaRT(s, x.X.Type(), x.Type(), in.get(s, f, x.X)); tgt != "" {
			fn := in.rtPkg.Func(tgt)
			if fn == nil {
				in.unsup("verifrt.%s missing", tgt)
			}
			in.pushFrame(s, th, fn, []Value{in.get(s, f, x.X)}, nil, x, retNormal)
			return nil
		}
		f.set(x, in.convert(s, x.X.Type(), x.Type(), in.get(s, f, x.X), x))
		f.ip++
	case *ssa.MultiConvert:
		f.set(x, in.convert(s, x.X.Type(), x.Type(), in.get(s, f, x.X), x))
		f.ip++
	case *ssa.SliceToArrayPointer:
		sl := in.get(s, f, x.X).(*Slice)
		n := int(x.Type().Underlying().(*types.Pointer).Elem().Underlying().(*types.Array).Len())
		if sl.Len < n {
			panic(goPanic{msg: "slice to array pointer: length too short at " + in.pos(instr)})
		}
		if sl.Arr == nil {
			f.set(x, nilPtr())
		} else if sl.Off == 0 && in.aggLen(s, sl.Arr) == n {
			f.set(x, sl.Arr)
		} else {
			in.unsup("SliceToArrayPointer of a sub-slice")
		}
		f.ip++
	case *ssa.Extract:
		f.set(x, in.get(s, f, x.Tuple).(*Agg).Elems[x.Index])
		f.ip++
	case *ssa.MakeSlice:
		n, forks := in.concretize(s, f, x.Len, "make len")
		if forks != nil {
			return forks
		}
		c, forks := in.concretize(s, f, x.Cap, "make cap")
		if forks != nil {
			return forks
		}
		if n < 0 || c < n {
			panic(goPanic{msg: "makeslice: len out of range at " + in.pos(instr)})
		}
		if c > 1<<20 {
			panic(goPanic{msg: fmt.Sprintf("makeslice: huge allocation of %d elements at %s", c, in.pos(instr))})
		}
		elemT := x.Type().Underlying().(*types.Slice).Elem()
		arr := &Agg{Elems: make([]Value, c)}
		if c > 0 {
			z := in.zero(elemT)
			for i := range arr.Elems {
				arr.Elems[i] = z
			}
		}
		f.set(x, &Slice{Arr: in.alloc(s, arr), Len: int(n), Cap: int(c)})
		f.ip++
	case *ssa.MakeMap:
		f.set(x, &MapRef{Obj: in.alloc(s, &MapData{}).Obj})
		f.ip++
	case *ssa.MakeChan:
		n, forks := in.concretize(s, f, x.Size, "chan size")
		if forks != nil {
			return forks
		}
		f.set(x, in.alloc(s, &ChanData{Cap: int(n)}))
		f.ip++
	case *ssa.MapUpdate:
		return in.mapUpdate(s, f, x)
	case *ssa.Range:
		in.rangeInstr(s, f, x)
		f.ip++
	case *ssa.Next:
		return in.nextInstr(s, th, f, x)
	case *ssa.Slice:
		return in.sliceOp(s, f, x)
	case *ssa.TypeAssert:
		f.set(x, in.typeAssert(s, f, x))
		f.ip++
	case *ssa.Panic:
		v := in.get(s, f, x.X)
		panic(goPanic{msg: fmt.Sprintf("panic(%s) at %s", in.show(v), in.pos(instr)), val: v})
	case *ssa.Send:
		return in.sendInstr(s, th, f, x)
	case *ssa.Select:
		return in.selectInstr(s, th, f, x)
	default:
		in.unsup("instruction %T: %s at %s", instr, instr, in.pos(instr))
	}
	return nil
}

func (in *Interp) aggLen(s *State, p *Ptr) int {
	a, ok := in.load(s, p).(*Agg)
	if !ok {
		return -1
	}
	return len(a.Elems)
}

func (in *Interp) unop(s *State, th *Thread, f *Frame, x *ssa.UnOp) []*State {
	v := in.get(s, f, x.X)
	switch x.Op {
	case token.MUL:
		p, ok := v.(*Ptr)
		if !ok {
			in.unsup("load through %T at %s", v, in.pos(x))
		}
		if p.Obj < 0 {
			panic(goPanic{msg: "nil pointer dereference at " + in.pos(x)})
		}
		f.set(x, in.load(s, p))
	case token.NOT:
		f.set(x, in.ts.Not(v.(*term.Term)))
	case token.SUB:
		t := v.(*term.Term)
		if t.S.K == term.KFP {
			f.set(x, in.ts.FNeg(t))
		} else {
			f.set(x, in.ts.Neg(t))
		}
	case token.XOR:
		f.set(x, in.ts.BNot(v.(*term.Term)))
	case token.ARROW:
		return in.recvInstr(s, th, f, x)
	default:
		in.unsup("unop %v", x.Op)
	}
	f.ip++
	return nil
}

func (in *Interp) binopInstr(s *State, f *Frame, x *ssa.BinOp) []*State {
	a, b := in.get(s, f, x.X), in.get(s, f, x.Y)
	if x.Op == token.QUO || x.Op == token.REM {
		if bt, ok := b.(*term.Term); ok && bt.S.K == term.KBV {
			nz := in.ts.Not(in.ts.Eq(bt, in.ts.Const(bt.S.W, 0)))
			ok, o := in.decide(s, nz)
			if o != nil {
				return one(o)
			}
			if !ok {
				panic(goPanic{msg: "integer divide by zero at " + in.pos(x)})
			}
		}
	}
	if x.Op == token.SHL || x.Op == token.SHR {
		if bt, ok := b.(*term.Term); ok && isSigned(x.Y.Type()) {
			nn := in.ts.Sle(in.ts.Const(bt.S.W, 0), bt)
			ok, o := in.decide(s, nn)
			if o != nil {
				return one(o)
			}
			if !ok {
				panic(goPanic{msg: "negative shift amount at " + in.pos(x)})
			}
		}
	}
	f.set(x, in.binop(s, x.Op, x.X.Type(), a, b))
	f.ip++
	return nil
}

func (in *Interp) binop(s *State, op token.Token, xt types.Type, a, b Value) Value {
	switch op {
	case token.EQL:
		return in.valueEq(a, b)
	case token.NEQ:
		return in.ts.Not(in.valueEq(a, b))
	}
	ts := in.ts
	if as, ok := a.(*Str); ok {
		bs := b.(*Str)
		switch op {
		case token.ADD:
			return in.strConcat(as, bs)
		case token.LSS:
			return in.strLess(as, bs, false)
		case token.LEQ:
			return in.strLess(as, bs, true)
		case token.GTR:
			return in.strLess(bs, as, false)
		case token.GEQ:
			return in.strLess(bs, as, true)
		}
		in.unsup("string binop %v", op)
	}
	at, aok := a.(*term.Term)
	bt, bok := b.(*term.Term)
	if !aok || !bok {
		in.unsup("binop %v on %T,%T", op, a, b)
	}
	if at.S.K == term.KBool {
		switch op {
		case token.AND, token.LAND:
			return ts.And(at, bt)
		case token.OR, token.LOR:
			return ts.Or(at, bt)
		}
		in.unsup("bool binop %v", op)
	}
	if at.S.K == term.KFP {
		switch op {
		case token.ADD:
			return ts.FBin(term.OpFpAdd, at, bt)
		case token.SUB:
			return ts.FBin(term.OpFpSub, at, bt)
		case token.MUL:
			return ts.FBin(term.OpFpMul, at, bt)
		case token.QUO:
			return ts.FBin(term.OpFpDiv, at, bt)
		case token.LSS:
			return ts.FCmp(term.OpFpLt, at, bt)
		case token.LEQ:
			return ts.FCmp(term.OpFpLe, at, bt)
		case token.GTR:
			return ts.FCmp(term.OpFpLt, bt, at)
		case token.GEQ:
			return ts.FCmp(term.OpFpLe, bt, at)
		}
		in.unsup("float binop %v", op)
	}
	sg := isSigned(xt)
	switch op {
	case token.ADD:
		return ts.Add(at, bt)
	case token.SUB:
		return ts.Sub(at, bt)
	case token.MUL:
		return ts.Mul(at, bt)
	case token.QUO:
		if sg {
			return ts.SDiv(at, bt)
		}
		return ts.UDiv(at, bt)
	case token.REM:
		if sg {
			return ts.SRem(at, bt)
		}
		return ts.URem(at, bt)
	case token.AND:
		return ts.BAnd(at, bt)
	case token.OR:
		return ts.BOr(at, bt)
	case token.XOR:
		return ts.BXor(at, bt)
	case token.AND_NOT:
		return ts.BAnd(at, ts.BNot(bt))
	case token.SHL, token.SHR:
		w := at.S.W
		cw := bt.S.W
		var big *term.Term
		if cw < 64 && uint64(w) >= (uint64(1)<<uint(cw)) {
			big = ts.BoolC(false)
		} else {
			big = ts.Ule(ts.Const(cw, uint64(w)), bt) // count >= w
		}
		cnt := ts.Resize(bt, w, false)
		var sh, over *term.Term
		if op == token.SHL {
			sh, over = ts.Shl(at, cnt), ts.Const(w, 0)
		} else if sg {
			sh, over = ts.Ashr(at, cnt), ts.Ashr(at, ts.Const(w, uint64(w-1)))
		} else {
			sh, over = ts.Lshr(at, cnt), ts.Const(w, 0)
		}
		return ts.Ite(big, over, sh)
	case token.LSS:
		if sg {
			return ts.Slt(at, bt)
		}
		return ts.Ult(at, bt)
	case token.LEQ:
		if sg {
			return ts.Sle(at, bt)
		}
		return ts.Ule(at, bt)
	case token.GTR:
		if sg {
			return ts.Slt(bt, at)
		}
		return ts.Ult(bt, at)
	case token.GEQ:
		if sg {
			return ts.Sle(bt, at)
		}
		return ts.Ule(bt, at)
	}
	in.unsup("binop %v", op)
	return nil
}

func (in *Interp) valueEq(a, b Value) *term.Term {
	switch x := a.(type) {
	case *term.Term:
		y := b.(*term.Term)
		if x.S.K == term.KFP {
			return in.ts.FCmp(term.OpFpEq, x, y)
		}
		return in.ts.Eq(x, y)
	case *Ptr:
		y, ok := b.(*Ptr)
		if !ok {
			in.unsup("pointer compared with %T", b)
		}
		if x.Obj != y.Obj || len(x.Path) != len(y.Path) {
			return in.ts.BoolC(false)
		}
		r := in.ts.BoolC(true)
		for i := range x.Path {
			xe, ye := x.Path[i], y.Path[i]
			if xe.Sym == nil && ye.Sym == nil {
				if xe.Idx != ye.Idx {
					return in.ts.BoolC(false)
				}
				continue
			}
			xs, ys := xe.Sym, ye.Sym
			if xs == nil {
				xs = in.ts.Const(64, uint64(xe.Idx))
			}
			if ys == nil {
				ys = in.ts.Const(64, uint64(ye.Idx))
			}
			r = in.ts.And(r, in.ts.Eq(xs, ys))
		}
		return r
	case *Iface:
		y := b.(*Iface)
		if x.T == nil || y.T == nil {
			return in.ts.BoolC(x.T == nil && y.T == nil)
		}
		if !types.Identical(x.T, y.T) {
			return in.ts.BoolC(false)
		}
		return in.valueEq(x.V, y.V)
	case *Agg:
		y := b.(*Agg)
		r := in.ts.BoolC(true)
		for i := range x.Elems {
			r = in.ts.And(r, in.valueEq(x.Elems[i], y.Elems[i]))
		}
		return r
	case *Str:
		return in.strEq(x, b.(*Str))
	case *Slice:
		y := b.(*Slice)
		if x.Arr == nil || y.Arr == nil { // comparison with nil
			return in.ts.BoolC(x.Arr == nil && y.Arr == nil)
		}
	case *Func:
		y := b.(*Func)
		xn := x.Fn == nil && x.Intr == ""
		yn := y.Fn == nil && y.Intr == ""
		if xn || yn {
			return in.ts.BoolC(xn && yn)
		}
	case *MapRef:
		y := b.(*MapRef)
		if x.Obj < 0 || y.Obj < 0 {
			return in.ts.BoolC(x.Obj < 0 && y.Obj < 0)
		}
	case *Opaque:
		if _, ok := b.(*Opaque); ok {
			return in.ts.BoolC(true)
		}
		return in.ts.BoolC(false)
	}
	if _, ok := b.(*Opaque); ok {
		return in.ts.BoolC(false)
	}
	in.unsup("valueEq on %T / %T", a, b)
	return nil
}

// convertViaRT names the verifrt helper that performs a conversion on symbolic data
// (string <-> []rune, rune -> string), or "".
func (in *Interp) convertViaRT(s *State, from, to types.Type, v Value) string {
	fu, tu := from.Underlying(), to.Underlying()
	isStr := func(t types.Type) bool {
		b, ok := t.(*types.Basic)
		return ok && b.Info()&types.IsString != 0
	}
	isRunes := func(t types.Type) bool {
		sl, ok := t.(*types.Slice)
		if !ok {
			return false
		}
		b, ok := sl.Elem().Underlying().(*types.Basic)
		return ok && b.Kind() == types.Int32
	}
	switch {
	case isStr(fu) && isRunes(tu):
		if str := in.mat(v.(*Str)); str.B != nil {
			return "StringToRunes"
		}
	case isRunes(fu) && isStr(tu):
		sl := v.(*Slice)
		for i := 0; i < sl.Len; i++ {
			if t := in.load(s, sl.Arr.child(PathElem{Idx: sl.Off + i})).(*term.Term); !t.IsConst() {
				return "RunesToString"
			}
		}
	case isStr(tu):
		if b, ok := fu.(*types.Basic); ok && b.Info()&types.IsInteger != 0 {
			if t := v.(*term.Term); !t.IsConst() {
				if b.Kind() == types.Int32 {
					return "RuneToString"
				}
			}
		}
	}
	return ""
}

func (in *Interp) convert(s *State, from, to types.Type, v Value, at ssa.Instruction) Value {
	fu, tu := from.Underlying(), to.Underlying()
	fb, fok := fu.(*types.Basic)
	tb, tok := tu.(*types.Basic)
	if fok && tok {
		fi, ti := fb.Info(), tb.Info()
		switch {
		case fi&types.IsInteger != 0 && ti&types.IsInteger != 0:
			return in.ts.Resize(v.(*term.Term), intWidth(tb), isSigned(from))
		case fi&types.IsInteger != 0 && ti&types.IsFloat != 0:
			return in.ts.FFromBV(v.(*term.Term), floatWidth(to), isSigned(from))
		case fi&types.IsFloat != 0 && ti&types.IsInteger != 0:
			return in.ts.FToBV(v.(*term.Term), intWidth(tb), isSigned(to))
		case fi&types.IsFloat != 0 && ti&types.IsFloat != 0:
			return in.ts.FToFp(v.(*term.Term), floatWidth(to))
		case fi&types.IsString != 0 && ti&types.IsString != 0:
			return v
		case fi&types.IsInteger != 0 && ti&types.IsString != 0:
			t := v.(*term.Term)
			if t.IsConst() {
				return &Str{S: string(rune(signedVal(t.Val, t.S.W)))}
			}
			in.unsup("string(symbolic rune) at %s", in.pos(at))
		case fb.Kind() == types.UnsafePointer || tb.Kind() == types.UnsafePointer:
			return v
		}
	}
	if tok && tb.Kind() == types.UnsafePointer {
		return v
	}
	if fok && fb.Kind() == types.UnsafePointer {
		return v
	}
	// string <-> []byte
	if fok && fb.Info()&types.IsString != 0 {
		if sl, ok := tu.(*types.Slice); ok {
			eb, _ := sl.Elem().Underlying().(*types.Basic)
			str := in.mat(v.(*Str))
			if eb != nil && eb.Kind() == types.Uint8 {
				bs := in.strBytes(str)
				arr := &Agg{Elems: make([]Value, len(bs))}
				for i, b := range bs {
					arr.Elems[i] = b
				}
				return &Slice{Arr: in.alloc(s, arr), Len: len(bs), Cap: len(bs)}
			}
			if eb != nil && eb.Kind() == types.Int32 {
				if str.B == nil {
					rs := []rune(str.S)
					arr := &Agg{Elems: make([]Value, len(rs))}
					for i, r := range rs {
						arr.Elems[i] = in.ts.Const(32, uint64(r))
					}
					return &Slice{Arr: in.alloc(s, arr), Len: len(rs), Cap: len(rs)}
				}
				in.unsup("[]rune(symbolic string)")
			}
		}
	}
	if tok && tb.Info()&types.IsString != 0 {
		if sl, ok := fu.(*types.Slice); ok {
			eb, _ := sl.Elem().Underlying().(*types.Basic)
			if eb != nil && eb.Kind() == types.Uint8 {
				return in.sliceToStr(s, v.(*Slice))
			}
			if eb != nil && eb.Kind() == types.Int32 {
				sl := v.(*Slice)
				rs := make([]rune, sl.Len)
				for i := 0; i < sl.Len; i++ {
					t := in.load(s, sl.Arr.child(PathElem{Idx: sl.Off + i})).(*term.Term)
					if !t.IsConst() {
						in.unsup("string([]rune) with symbolic rune")
					}
					rs[i] = rune(t.Val)
				}
				return &Str{S: string(rs)}
			}
		}
	}
	// pointer <-> pointer (via unsafe), slice->slice of same underlying, etc.
	if _, ok := fu.(*types.Pointer); ok {
		if _, ok := tu.(*types.Pointer); ok {
			return v
		}
	}
	if _, ok := fu.(*types.Slice); ok {
		if _, ok := tu.(*types.Slice); ok {
			return v
		}
	}
	in.unsup("convert %v -> %v at %s", from, to, in.pos(at))
	return nil
}

// mergeable reports whether values of type t can be merged by ite.
func mergeable(t types.Type) bool {
	switch u := t.Underlying().(type) {
	case *types.Basic:
		return u.Info()&(types.IsBoolean|types.IsInteger|types.IsFloat) != 0
	case *types.Struct:
		for i := 0; i < u.NumFields(); i++ {
			if !mergeable(u.Field(i).Type()) {
				return false
			}
		}
		return true
	case *types.Array:
		return mergeable(u.Elem())
	}
	return false
}

func (in *Interp) indexAddr(s *State, f *Frame, x *ssa.IndexAddr) []*State {
	base := in.get(s, f, x.X)
	idx := in.get(s, f, x.Index).(*term.Term)
	idx = in.ts.Resize(idx, 64, isSigned(x.Index.Type()))
	var arr *Ptr
	var off, n int
	var elemT types.Type
	switch b := base.(type) {
	case *Slice:
		if b.Arr == nil {
			arr, off, n = nilPtr(), 0, 0
		} else {
			arr, off, n = b.Arr, b.Off, b.Len
		}
		elemT = x.X.Type().Underlying().(*types.Slice).Elem()
	case *Ptr: // pointer to array
		arr, off = b, 0
		at := x.X.Type().Underlying().(*types.Pointer).Elem().Underlying().(*types.Array)
		n = int(at.Len())
		elemT = at.Elem()
		if b.Obj < 0 {
			panic(goPanic{msg: "nil pointer dereference at " + in.pos(x)})
		}
	default:
		in.unsup("indexAddr on %T", base)
	}
	if idx.IsConst() {
		i := int(int64(idx.Val))
		if i < 0 || i >= n {
			panic(goPanic{msg: fmt.Sprintf("index out of range [%d] with length %d at %s", i, n, in.pos(x))})
		}
		f.set(x, arr.child(PathElem{Idx: off + i}))
		f.ip++
		return nil
	}
	inb := in.ts.Ult(idx, in.ts.Const(64, uint64(n)))
	ok, o := in.decide(s, inb)
	if o != nil {
		return one(o)
	}
	if !ok {
		panic(goPanic{msg: fmt.Sprintf("index out of range (symbolic index) with length %d at %s", n, in.pos(x))})
	}
	if !mergeable(elemT) || n > 256 {
		_, forks := in.concretize(s, f, x.Index, "index")
		if forks != nil {
			return forks
		}
		// now concrete: re-execute
		return nil
	}
	sym := idx
	if off != 0 {
		sym = in.ts.Add(idx, in.ts.Const(64, uint64(off)))
	}
	f.set(x, arr.child(PathElem{Sym: sym}))
	f.ip++
	return nil
}

func (in *Interp) indexVal(s *State, f *Frame, x *ssa.Index) []*State {
	base := in.get(s, f, x.X)
	if str, ok := base.(*Str); ok {
		return in.strIndex(s, f, x, str, x.Index)
	}
	a, ok := base.(*Agg)
	if !ok {
		in.unsup("Index on %T", base)
	}
	idx := in.ts.Resize(in.get(s, f, x.Index).(*term.Term), 64, isSigned(x.Index.Type()))
	n := len(a.Elems)
	if idx.IsConst() {
		i := int(int64(idx.Val))
		if i < 0 || i >= n {
			panic(goPanic{msg: fmt.Sprintf("index out of range [%d] with length %d at %s", i, n, in.pos(x))})
		}
		f.set(x, a.Elems[i])
		f.ip++
		return nil
	}
	inb := in.ts.Ult(idx, in.ts.Const(64, uint64(n)))
	okb, o := in.decide(s, inb)
	if o != nil {
		return one(o)
	}
	if !okb {
		panic(goPanic{msg: fmt.Sprintf("index out of range (symbolic index) with length %d at %s", n, in.pos(x))})
	}
	var r Value
	for j := n - 1; j >= 0; j-- {
		if r == nil {
			r = a.Elems[j]
		} else {
			r = in.merge(in.ts.Eq(idx, in.ts.Const(64, uint64(j))), a.Elems[j], r)
		}
	}
	f.set(x, r)
	f.ip++
	return nil
}

func (in *Interp) sliceOp(s *State, f *Frame, x *ssa.Slice) []*State {
	base := in.get(s, f, x.X)
	var vals [3]int64
	ops := [3]ssa.Value{x.Low, x.High, x.Max}
	for i, o := range ops {
		if o == nil {
			vals[i] = -1
			continue
		}
		v, forks := in.concretize(s, f, o, "slice bound")
		if forks != nil {
			return forks
		}
		if v < 0 {
			panic(goPanic{msg: fmt.Sprintf("slice bounds out of range [%d] at %s", v, in.pos(x))})
		}
		vals[i] = v
	}
	def := func(v int64, d int) int {
		if v < 0 {
			return d
		}
		return int(v)
	}
	switch b := base.(type) {
	case *Slice:
		lo := def(vals[0], 0)
		hi := def(vals[1], b.Len)
		mx := def(vals[2], b.Cap)
		if hi < lo || mx < hi || mx > b.Cap {
			panic(goPanic{msg: fmt.Sprintf("slice bounds out of range [%d:%d:%d] with capacity %d at %s", lo, hi, mx, b.Cap, in.pos(x))})
		}
		if b.Arr == nil {
			f.set(x, &Slice{})
		} else {
			f.set(x, &Slice{Arr: b.Arr, Off: b.Off + lo, Len: hi - lo, Cap: mx - lo})
		}
	case *Ptr: // *array
		n := int(x.X.Type().Underlying().(*types.Pointer).Elem().Underlying().(*types.Array).Len())
		lo := def(vals[0], 0)
		hi := def(vals[1], n)
		mx := def(vals[2], n)
		if hi < lo || mx < hi || mx > n {
			panic(goPanic{msg: "slice bounds out of range at " + in.pos(x)})
		}
		if b.Obj < 0 {
			panic(goPanic{msg: "nil pointer dereference at " + in.pos(x)})
		}
		f.set(x, &Slice{Arr: b, Off: lo, Len: hi - lo, Cap: mx - lo})
	case *Str:
		n := in.strLen(b)
		lo := def(vals[0], 0)
		hi := def(vals[1], n)
		if hi < lo || hi > n {
			panic(goPanic{msg: fmt.Sprintf("slice bounds out of range [%d:%d] with length %d at %s", lo, hi, n, in.pos(x))})
		}
		f.set(x, in.substr(b, lo, hi))
	default:
		in.unsup("slice of %T", base)
	}
	f.ip++
	return nil
}

func (in *Interp) typeAssert(s *State, f *Frame, x *ssa.TypeAssert) Value {
	raw := in.get(s, f, x.X)
	v, isI := raw.(*Iface)
	if !isI {
		if _, ok := raw.(*Opaque); ok {
			v = &Iface{}
		} else {
			in.unsup("type assert on %T", raw)
		}
	}
	ok := false
	if v.T != nil {
		if types.IsInterface(x.AssertedType) {
			ok = types.Implements(v.T, x.AssertedType.Underlying().(*types.Interface))
		} else {
			ok = types.Identical(v.T, x.AssertedType)
		}
	}
	var res Value
	if ok {
		if types.IsInterface(x.AssertedType) {
			res = v
		} else {
			res = v.V
		}
	} else {
		res = in.zero(x.AssertedType)
	}
	if x.CommaOk {
		return &Agg{Elems: []Value{res, in.ts.BoolC(ok)}}
	}
	if !ok {
		panic(goPanic{msg: fmt.Sprintf("interface conversion: %v is not %v at %s", v.T, x.AssertedType, in.pos(x))})
	}
	return res
}
