package interp

import (
	"fmt"
	"go/types"
	"strings"

	"golang.org/x/tools/go/ssa"

	"gosym/term"
)

// resolved callee
type callee struct {
	fn   *ssa.Function
	env  []Value
	args []Value
	bi   string // builtin name
	intr string // engine function value
	skip bool   // black-holed
	sig  *types.Signature
}

func (in *Interp) resolve(s *State, f *Frame, cc *ssa.CallCommon, at ssa.Instruction) *callee {
	c := &callee{sig: cc.Signature()}
	if cc.IsInvoke() {
		rv := in.get(s, f, cc.Value)
		recv, ok := rv.(*Iface)
		if !ok {
			if _, isO := rv.(*Opaque); isO {
				c.skip = true
				return c
			}
			in.unsup("invoke on %T", rv)
		}
		if recv.T == nil {
			if cc.Method.Pkg() != nil && in.isBlackhole(cc.Method.Pkg().Path()) {
				c.skip = true
				return c
			}
			panic(goPanic{msg: fmt.Sprintf("nil interface method call %s at %s", cc.Method.Name(), in.pos(at))})
		}
		if _, isO := recv.V.(*Opaque); isO {
			c.skip = true
			return c
		}
		c.fn = in.prog.LookupMethod(recv.T, cc.Method.Pkg(), cc.Method.Name())
		if c.fn == nil {
			in.unsup("method %s not found on %v", cc.Method.Name(), recv.T)
		}
		c.args = append(c.args, recv.V)
	} else {
		switch v := in.get(s, f, cc.Value).(type) {
		case *Func:
			if v.Intr != "" {
				c.intr = v.Intr
				c.env = v.Env
			} else if v.Fn == nil {
				panic(goPanic{msg: "call of nil func at " + in.pos(at)})
			} else {
				c.fn, c.env = v.Fn, v.Env
			}
		case *Builtin:
			c.bi = v.Name
		case *Opaque:
			c.skip = true
		default:
			in.unsup("call of %T", v)
		}
	}
	for _, a := range cc.Args {
		c.args = append(c.args, in.get(s, f, a))
	}
	return c
}

func (in *Interp) defaultResult(sig *types.Signature) Value {
	res := sig.Results()
	mk := func(t types.Type) Value {
		switch t.Underlying().(type) {
		case *types.Pointer, *types.Interface, *types.Signature, *types.Chan:
			if types.Identical(t, types.Universe.Lookup("error").Type()) {
				return &Iface{}
			}
			return &Opaque{What: t.String()}
		}
		return in.zero(t)
	}
	switch res.Len() {
	case 0:
		return nil
	case 1:
		return mk(res.At(0).Type())
	}
	a := &Agg{Elems: make([]Value, res.Len())}
	for i := range a.Elems {
		a.Elems[i] = mk(res.At(i).Type())
	}
	return a
}

func (in *Interp) call(s *State, th *Thread, f *Frame, x *ssa.Call) []*State {
	c := in.resolve(s, f, x.Common(), x)
	return in.dispatch(s, th, f, c, x, x, retNormal)
}

// dispatch performs the call. retTo may be nil (result discarded).
func (in *Interp) dispatch(s *State, th *Thread, f *Frame, c *callee, at ssa.Instruction, retTo ssa.Value, rk retKind) []*State {
	finish := func(v Value) {
		// complete without a frame
		switch rk {
		case retNormal:
			if retTo != nil && v != nil {
				f.set(retTo, v)
			}
			f.ip++
		case retDiscard:
			f.ip++
		case retStay:
		}
	}
	if c.skip {
		finish(in.defaultResult(c.sig))
		return nil
	}
	if c.bi != "" {
		v, forks := in.builtin(s, th, f, c.bi, at, c.args)
		if forks != nil {
			return forks
		}
		finish(v)
		return nil
	}
	if c.intr != "" {
		finish(in.funcIntr(s, c))
		return nil
	}
	fn := c.fn
	if fn.Name() == "init" && fn.Pkg != nil && fn.Signature.Recv() == nil && fn.Pkg != f.fn.Pkg && fn.Parent() == nil {
		finish(nil) // other packages are initialised on demand
		return nil
	}
	name := fn.String()
	if fn.Pkg != nil && fn.Pkg == in.rtPkg {
		if h, ok := rtIntrinsics[fn.Name()]; ok {
			v, forks, done := h(in, s, &callCtx{th: th, f: f, at: at, args: c.args, retTo: retTo, rk: rk, fn: fn})
			if forks != nil || !done {
				return forks
			}
			finish(v)
			return nil
		}
	}
	if tgt, ok := in.cfg.Redirect[name]; ok && !(f.fn.Pkg == in.rtPkg && strings.HasPrefix(f.fn.Name(), "utf8")) {
		nf := in.rtPkg.Func(tgt)
		if nf == nil {
			in.unsup("redirect target verifrt.%s missing", tgt)
		}
		fn = nf
		name = fn.String()
	} else if o := fn.Origin(); o != nil {
		if tgt, ok := in.cfg.Redirect[o.String()]; ok {
			in.unsup("redirect of generic %s to %s not supported", o, tgt)
		}
	}
	key := name
	if o := fn.Origin(); o != nil {
		key = o.String()
	}
	h, ok := intrinsics[key]
	if ok && in.cfg.Models["real-context"] && strings.HasPrefix(key, "context.") {
		ok = false // the harness wants cancellation: run the real context package
	}
	if !ok && in.cfg.Models[key] {
		h, ok = optIntrinsics[key]
	}
	if !ok && in.cfg.Models["time-as-milliseconds"] {
		h, ok = timeMsModel[key]
	}
	if ok {
		v, forks, done := h(in, s, &callCtx{th: th, f: f, at: at, args: c.args, retTo: retTo, rk: rk, fn: fn})
		if forks != nil {
			return forks
		}
		if !done {
			return nil // handler arranged continuation itself (pushed a frame, blocked, ...)
		}
		finish(v)
		return nil
	}
	if in.cfg.SkipFuncs[name] {
		in.St.Notes["skipped:"+name]++
		finish(in.defaultResult(fn.Signature))
		return nil
	}
	if fn.Pkg != nil && in.isBlackhole(fn.Pkg.Pkg.Path()) && !in.keepFunc(name) {
		switch name {
		case "github.com/ozontech/seq-db/logger.Panic":
			panic(goPanic{msg: "logger.Panic(" + in.show(c.args[0]) + ") at " + in.pos(at)})
		case "github.com/ozontech/seq-db/logger.Fatal":
			s.status = Fatal
			s.msg = "logger.Fatal(" + in.show(c.args[0]) + ") at " + in.pos(at)
			return nil
		}
		if h, ok := blackholeSpecial[name]; ok {
			h(in, s, c.args)
		}
		in.St.Notes["blackhole:"+name]++
		finish(in.defaultResult(fn.Signature))
		return nil
	}
	if fn.Pkg == nil && fn.Origin() != nil && fn.Origin().Pkg != nil && in.isBlackhole(fn.Origin().Pkg.Pkg.Path()) {
		finish(in.defaultResult(fn.Signature))
		return nil
	}
	if len(fn.Blocks) == 0 {
		in.unsup("no body for %s (called at %s)", name, in.pos(at))
	}
	in.pushFrame(s, th, fn, c.args, c.env, retTo, rk)
	return nil
}

func (in *Interp) deferInstr(s *State, f *Frame, x *ssa.Defer) {
	cc := x.Common()
	d := &deferRec{call: cc, pos: x}
	if cc.IsInvoke() {
		d.fn = in.get(s, f, cc.Value)
	} else {
		d.fn = in.get(s, f, cc.Value)
	}
	for _, a := range cc.Args {
		d.args = append(d.args, in.get(s, f, a))
	}
	f.defers = append(f.defers, d)
}

// invokeDeferred calls d from frame f; f's ip stays (RunDefers / unwinding re-enter).
func (in *Interp) invokeDeferred(s *State, th *Thread, f *Frame, d *deferRec) {
	c := &callee{sig: d.call.Signature()}
	if d.call.IsInvoke() {
		recv, ok := d.fn.(*Iface)
		if !ok || recv.T == nil {
			if _, isO := d.fn.(*Opaque); isO {
				return
			}
			panic(goPanic{msg: "deferred nil interface method call"})
		}
		if _, isO := recv.V.(*Opaque); isO {
			return
		}
		c.fn = in.prog.LookupMethod(recv.T, d.call.Method.Pkg(), d.call.Method.Name())
		c.args = append([]Value{recv.V}, d.args...)
	} else {
		switch v := d.fn.(type) {
		case *Func:
			if v.Intr != "" {
				c.intr, c.env = v.Intr, v.Env
			} else if v.Fn == nil {
				panic(goPanic{msg: "deferred call of nil func"})
			} else {
				c.fn, c.env = v.Fn, v.Env
			}
		case *Builtin:
			c.bi = v.Name
		case *Opaque:
			return
		default:
			in.unsup("defer of %T", v)
		}
		c.args = d.args
	}
	depth := len(th.frames)
	forks := in.dispatch(s, th, f, c, d.pos, nil, retStay)
	if len(forks) > 0 {
		in.unsup("fork inside deferred builtin/intrinsic dispatch")
	}
	if len(th.frames) == depth+1 {
		th.top().deferred = true
	}
}

// keepFunc: functions of a black-holed package that the harness wants executed (spec: keep_funcs, by
// name prefix) - pure helpers living in a package that is otherwise all metrics.
func (in *Interp) keepFunc(name string) bool {
	for _, p := range in.cfg.KeepFuncs {
		if strings.HasPrefix(name, p) {
			return true
		}
	}
	return false
}

// c0DeferredBuiltin: `defer recover()` itself (the builtin deferred directly) runs in the frame being
// unwound; it is treated like a direct call, as before.
func c0DeferredBuiltin(f *Frame) bool { return f.unwinding }

func (in *Interp) goInstr(s *State, f *Frame, x *ssa.Go) {
	c := in.resolve(s, f, x.Common(), x)
	if c.skip || c.intr != "" || c.bi != "" {
		return
	}
	fn := c.fn
	if fn.Pkg != nil && in.isBlackhole(fn.Pkg.Pkg.Path()) {
		return
	}
	if tgt, ok := in.cfg.Redirect[fn.String()]; ok {
		fn = in.rtPkg.Func(tgt)
	}
	nt := &Thread{}
	in.pushFrame(s, nt, fn, c.args, c.env, nil, retDiscard)
	s.threads = append(s.threads, nt)
}

func (in *Interp) builtin(s *State, th *Thread, f *Frame, name string, at ssa.Instruction, args []Value) (Value, []*State) {
	ts := in.ts
	switch name {
	case "len":
		switch a := args[0].(type) {
		case *Slice:
			return ts.Const(64, uint64(a.Len)), nil
		case *Str:
			return ts.Const(64, uint64(in.strLen(a))), nil
		case *MapRef:
			return ts.Const(64, uint64(in.mapLen(s, a))), nil
		case *Ptr: // chan or *array
			if a.Obj < 0 {
				return ts.Const(64, 0), nil
			}
			switch d := in.heapGet(s, a.Obj).(type) {
			case *ChanData:
				return ts.Const(64, uint64(len(d.Buf))), nil
			case *Agg:
				return ts.Const(64, uint64(len(in.load(s, a).(*Agg).Elems))), nil
			}
		case *Agg:
			return ts.Const(64, uint64(len(a.Elems))), nil
		}
	case "cap":
		switch a := args[0].(type) {
		case *Slice:
			return ts.Const(64, uint64(a.Cap)), nil
		case *Ptr:
			if a.Obj < 0 {
				return ts.Const(64, 0), nil
			}
			if d, ok := in.heapGet(s, a.Obj).(*ChanData); ok {
				return ts.Const(64, uint64(d.Cap)), nil
			}
		}
	case "append":
		dst := args[0].(*Slice)
		var vals []Value
		switch src := args[1].(type) {
		case *Slice:
			if src.Len == 0 {
				return dst, nil
			}
			arr := in.load(s, src.Arr).(*Agg)
			vals = append(vals, arr.Elems[src.Off:src.Off+src.Len]...)
		case *Str:
			for _, b := range in.strBytes(src) {
				vals = append(vals, b)
			}
			if len(vals) == 0 {
				return dst, nil
			}
		default:
			in.unsup("append of %T", src)
		}
		elemT := at.(ssa.Value).Type().Underlying().(*types.Slice).Elem()
		if dst.Arr != nil && dst.Len+len(vals) <= dst.Cap {
			arr := in.load(s, dst.Arr).(*Agg)
			na := &Agg{Elems: append([]Value(nil), arr.Elems...)}
			copy(na.Elems[dst.Off+dst.Len:], vals)
			in.store(s, dst.Arr, na)
			return &Slice{Arr: dst.Arr, Off: dst.Off, Len: dst.Len + len(vals), Cap: dst.Cap}, nil
		}
		ncap := dst.Cap * 2
		if ncap < dst.Len+len(vals) {
			ncap = dst.Len + len(vals)
		}
		arr := &Agg{Elems: make([]Value, ncap)}
		if dst.Len > 0 {
			old := in.load(s, dst.Arr).(*Agg)
			copy(arr.Elems, old.Elems[dst.Off:dst.Off+dst.Len])
		}
		copy(arr.Elems[dst.Len:], vals)
		if dst.Len+len(vals) < ncap {
			z := in.zero(elemT)
			for i := dst.Len + len(vals); i < ncap; i++ {
				arr.Elems[i] = z
			}
		}
		return &Slice{Arr: in.alloc(s, arr), Len: dst.Len + len(vals), Cap: ncap}, nil
	case "copy":
		dst := args[0].(*Slice)
		var vals []Value
		switch src := args[1].(type) {
		case *Slice:
			if src.Len > 0 {
				arr := in.load(s, src.Arr).(*Agg)
				vals = append(vals, arr.Elems[src.Off:src.Off+src.Len]...)
			}
		case *Str:
			for _, b := range in.strBytes(src) {
				vals = append(vals, b)
			}
		}
		n := len(vals)
		if dst.Len < n {
			n = dst.Len
		}
		if n > 0 {
			arr := in.load(s, dst.Arr).(*Agg)
			na := &Agg{Elems: append([]Value(nil), arr.Elems...)}
			copy(na.Elems[dst.Off:dst.Off+n], vals[:n])
			in.store(s, dst.Arr, na)
		}
		return ts.Const(64, uint64(n)), nil
	case "delete":
		if o := in.mapDelete(s, args[0].(*MapRef), args[1]); o != nil {
			return nil, one(o)
		}
		return nil, nil
	case "panic":
		panic(goPanic{msg: fmt.Sprintf("panic(%s) at %s", in.show(args[0]), in.pos(at)), val: args[0]})
	case "recover":
		// recover stops a panic only when called directly by a deferred function (Go spec); called from a
		// function that the deferred function calls, or outside a panic, it returns nil
		if th.panicking && (f.deferred || c0DeferredBuiltin(f)) {
			th.panicking = false
			v := th.panicVal
			th.panicVal = nil
			if iv, ok := v.(*Iface); ok {
				return iv, nil
			}
			return &Iface{T: types.Typ[types.String], V: &Str{S: th.panicMsg}}, nil
		}
		return &Iface{}, nil
	case "min", "max":
		r := args[0]
		for _, a := range args[1:] {
			r = in.minmax(name == "min", r, a, at.(ssa.Value).Type())
		}
		return r, nil
	case "close":
		p := args[0].(*Ptr)
		if p.Obj < 0 {
			panic(goPanic{msg: "close of nil channel"})
		}
		d := in.heapGet(s, p.Obj).(*ChanData)
		if d.Closed {
			panic(goPanic{msg: "close of closed channel at " + in.pos(at)})
		}
		nd := *d
		nd.Closed = true
		s.heap[p.Obj] = &nd
		return nil, nil
	case "clear":
		switch a := args[0].(type) {
		case *MapRef:
			if a.Obj >= 0 {
				s.heap[a.Obj] = &MapData{}
			}
			return nil, nil
		case *Slice:
			if a.Len > 0 {
				arr := in.load(s, a.Arr).(*Agg)
				na := &Agg{Elems: append([]Value(nil), arr.Elems...)}
				z := in.zero(at.(*ssa.Call).Call.Args[0].Type().Underlying().(*types.Slice).Elem())
				for i := 0; i < a.Len; i++ {
					na.Elems[a.Off+i] = z
				}
				in.store(s, a.Arr, na)
			}
			return nil, nil
		}
	case "print", "println":
		return nil, nil
	case "Sizeof", "Alignof":
		call := at.(*ssa.Call)
		sz := types.SizesFor("gc", "amd64")
		t := call.Call.Args[0].Type()
		if name == "Sizeof" {
			return ts.Const(64, uint64(sz.Sizeof(t))), nil
		}
		return ts.Const(64, uint64(sz.Alignof(t))), nil
	case "String": // unsafe.String(ptr, len)
		p := args[0].(*Ptr)
		n := args[1].(*term.Term)
		if !n.IsConst() {
			in.unsup("unsafe.String with symbolic length")
		}
		if n.Val == 0 {
			return &Str{}, nil
		}
		sl := in.ptrToSlice(s, p, int(n.Val))
		return in.sliceToStr(s, sl), nil
	case "Slice": // unsafe.Slice(ptr, len)
		p := args[0].(*Ptr)
		n := args[1].(*term.Term)
		if !n.IsConst() {
			in.unsup("unsafe.Slice with symbolic length")
		}
		if p.Obj < 0 {
			return &Slice{}, nil
		}
		return in.ptrToSlice(s, p, int(n.Val)), nil
	case "SliceData":
		sl := args[0].(*Slice)
		if sl.Arr == nil {
			return nilPtr(), nil
		}
		return sl.Arr.child(PathElem{Idx: sl.Off}), nil
	case "StringData":
		str := args[0].(*Str)
		bs := in.strBytes(str)
		arr := &Agg{Elems: make([]Value, len(bs))}
		for i, b := range bs {
			arr.Elems[i] = b
		}
		return in.alloc(s, arr).child(PathElem{Idx: 0}), nil
	case "ssa:wrapnilchk":
		p, ok := args[0].(*Ptr)
		if ok && p.Obj < 0 {
			panic(goPanic{msg: "value method called using nil pointer at " + in.pos(at)})
		}
		return args[0], nil
	}
	in.unsup("builtin %s(%T) at %s", name, args[0], in.pos(at))
	return nil, nil
}

func (in *Interp) minmax(isMin bool, a, b Value, t types.Type) Value {
	if as, ok := a.(*Str); ok {
		bs := b.(*Str)
		lt := in.strLess(as, bs, false)
		if !lt.IsConst() {
			in.unsup("min/max on symbolic strings")
		}
		if lt.IsTrue() == isMin {
			return a
		}
		return b
	}
	at, bt := a.(*term.Term), b.(*term.Term)
	ts := in.ts
	if at.S.K == term.KFP {
		// Go: NaN if either is NaN; -0 < +0
		nan := ts.Or(ts.FIsNaN(at), ts.FIsNaN(bt))
		var pick *term.Term
		lt := ts.FCmp(term.OpFpLt, at, bt)
		gt := ts.FCmp(term.OpFpLt, bt, at)
		// equal (incl. zeros of different sign): compare sign bits is needed; approximate by choosing
		// a when a<b (min) / a>b (max), b when the other way, and for equality prefer the one with
		// sign bit set (min) or clear (max).  Sign test: 1/x < 0 is awkward; use fp.isNegative via lt zero on bits is unavailable,
		// so treat equal values as interchangeable except zeros, which we distinguish with division.
		// for equal operands (zeros of different sign) the sign bit decides
		bits := in.fpBits(in.curState, at)
		aNeg := ts.Eq(ts.Extract(bits, at.S.W-1, at.S.W-1), ts.Const(1, 1))
		if isMin {
			pick = ts.Ite(lt, at, ts.Ite(gt, bt, ts.Ite(aNeg, at, bt)))
		} else {
			pick = ts.Ite(gt, at, ts.Ite(lt, bt, ts.Ite(aNeg, bt, at)))
		}
		nanv := ts.FBin(term.OpFpAdd, at, bt) // NaN propagates through addition
		return ts.Ite(nan, nanv, pick)
	}
	var lt *term.Term
	if isSigned(t) {
		lt = ts.Slt(at, bt)
	} else {
		lt = ts.Ult(at, bt)
	}
	if isMin {
		return ts.Ite(lt, at, bt)
	}
	return ts.Ite(lt, bt, at)
}

func (in *Interp) funcIntr(s *State, c *callee) Value {
	switch {
	case c.intr == "noop":
		return nil
	}
	in.unsup("engine func %s", c.intr)
	return nil
}

func calleeName(fn *ssa.Function) string {
	n := fn.String()
	if i := strings.Index(n, "["); i >= 0 {
		n = n[:i]
	}
	return n
}

// ptrToSlice views n elements starting at element pointer p as a slice.
func (in *Interp) ptrToSlice(s *State, p *Ptr, n int) *Slice {
	if len(p.Path) == 0 {
		in.unsup("unsafe slice from a non-element pointer")
	}
	last := p.Path[len(p.Path)-1]
	if last.Sym != nil {
		in.unsup("unsafe slice from symbolic element pointer")
	}
	parent := &Ptr{Obj: p.Obj, Path: p.Path[:len(p.Path)-1]}
	total := in.aggLen(s, parent)
	if total < 0 || last.Idx+n > total {
		in.unsup("unsafe slice beyond the array")
	}
	return &Slice{Arr: parent, Off: last.Idx, Len: n, Cap: total - last.Idx}
}
