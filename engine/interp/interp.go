package interp

import (
	"fmt"
	"go/constant"
	"go/token"
	"go/types"
	"os"
	"sort"
	"strings"

	"golang.org/x/tools/go/ssa"

	"gosym/smt"
	"gosym/term"
)

type Stats struct {
	Paths, Done, Panicked, AssumeFalse, Bound, Unsupported, Fatal, Deadlock int
	Forks, Steps                                                         int
	AssertChecks, AssertQueries, AssertFail, AssertUnknown               int
	FeasUnknown, ModelHits                                               int
	Funcs                                                                map[string]bool
	Reach                                                                map[string]int
	Notes                                                                map[string]int
}

type Config struct {
	RTPath      string          // import path of verifrt
	Blackhole   []string        // package path prefixes whose calls are no-ops
	Redirect    map[string]string // callee full name -> verifrt function name
	MaxSteps    int
	Prefix      []int // forced leading Choose results
	DiscoverDepth int // >0: stop each path after this many Choose calls and record prefixes
	PanicOK     bool // harness says: Go panics are not findings (still end the path)
	KeepFuncs   []string // name prefixes of functions executed although their package is black-holed
	PreemptAtSync bool // explore a context switch before every mutex Lock/RLock (bounded schedule exploration for small concurrent harnesses)
	Verbose     bool
	MaxConcretize int
	Params      map[string]int
	NoIncremental bool
	NoModelCache bool
	SkipFuncs   map[string]bool // functions treated as no-ops (default results)
	Models      map[string]bool // opt-in engine models of library functions (see optIntrinsics)
	SampleDone  int // number of completed paths whose model is kept for native validation
}

type Interp struct {
	prog   *ssa.Program
	ts     *term.Store
	sol    *smt.Solver
	cfg    Config
	St     Stats
	fninfo map[*ssa.Function]*fnInfo
	globalID map[*ssa.Global]int
	globalByID map[int]*ssa.Global
	pcSeq  int
	feasCache map[[2]int]bool
	Failures []*Failure
	Prefixes [][]int
	Samples  []string
	DoneVectors [][]uint64
	StepProf map[*ssa.Function]int
	predTerms map[predKey]*term.Term
	satModel  map[int]uint64
	curState  *State // state whose instruction is being executed (for helpers that add constraints)
	rtPkg  *ssa.Package
	base   map[int]Value // frozen heap after pre-init
}

func New(prog *ssa.Program, sol *smt.Solver, cfg Config) *Interp {
	if cfg.MaxSteps == 0 {
		cfg.MaxSteps = 2000000
	}
	if cfg.MaxConcretize == 0 {
		cfg.MaxConcretize = 64
	}
	in := &Interp{prog: prog, ts: term.NewStore(), sol: sol, cfg: cfg,
		St:     Stats{Funcs: map[string]bool{}, Reach: map[string]int{}, Notes: map[string]int{}},
		fninfo: map[*ssa.Function]*fnInfo{}, globalID: map[*ssa.Global]int{}, globalByID: map[int]*ssa.Global{},
		feasCache: map[[2]int]bool{}, StepProf: map[*ssa.Function]int{}}
	in.rtPkg = prog.ImportedPackage(cfg.RTPath)
	return in
}

func (in *Interp) Terms() *term.Store { return in.ts }

type unsupported struct{ msg string }

func (in *Interp) unsup(format string, a ...any) { panic(unsupported{fmt.Sprintf(format, a...)}) }

// goPanic is raised inside step helpers and becomes a Go-level panic of the interpreted program.
type goPanic struct {
	msg string
	val Value
}

type needInit struct{ pkg *ssa.Package }

const globalBase = 1 << 40

func (in *Interp) newState() *State {
	return &State{heap: map[int]Value{}, inited: map[*ssa.Package]bool{}, reach: map[string]bool{},
		locks: map[string]lockState{}, counters: map[string]int{}, nextObj: 1}
}

// Explore runs fn (no params) over all paths. preinit packages are initialised first.
func (in *Interp) Explore(fn *ssa.Function, preinit []*ssa.Package) {
	s0 := in.newState()
	s0.threads = []*Thread{{}}
	for _, p := range preinit {
		if s0.inited[p] {
			continue
		}
		s0.inited[p] = true
		init := p.Func("init")
		in.pushFrame(s0, s0.threads[0], init, nil, nil, nil, retDiscard)
		more := in.run(s0)
		if len(more) > 0 || s0.status != Done {
			fmt.Fprintf(os.Stderr, "INFRA init of %s did not run straight: status=%v msg=%s forks=%d\n", p.Pkg.Path(), s0.status, s0.msg, len(more))
			in.St.Unsupported++
			in.Failures = append(in.Failures, &Failure{Kind: "unsupported", Label: "init " + p.Pkg.Path() + ": " + s0.msg})
			return
		}
		s0.status = Running
		s0.threads = []*Thread{{}}
	}
	s0.steps = 0
	in.pushFrame(s0, s0.threads[0], fn, nil, nil, nil, retDiscard)
	work := []*State{s0}
	for len(work) > 0 {
		s := work[len(work)-1]
		work = work[:len(work)-1]
		more := in.run(s)
		in.St.Forks += len(more)
		work = append(work, more...)
		if s.status == Running {
			work = append(work, s)
			continue
		}
		in.finish(s)
	}
}

func (in *Interp) finish(s *State) {
	in.St.Paths++
	in.St.Steps += s.steps
	for l := range s.reach {
		in.St.Reach[l]++
	}
	for _, n := range s.notes {
		in.St.Notes[n]++
	}
	switch s.status {
	case Done:
		in.St.Done++
		if len(in.DoneVectors) < in.cfg.SampleDone && len(s.fails) == 0 && in.St.Done%3 == 1 {
			if in.modelValid(s) {
				in.DoneVectors = append(in.DoneVectors, in.vector(s, in.namedModel(s)))
			} else if r, err := in.check(s); err == nil && r == smt.Sat {
				m, _ := in.sol.Model(in.traceVars(s))
				in.DoneVectors = append(in.DoneVectors, in.vector(s, m))
			}
		}
	case Panicked:
		in.St.Panicked++
		if !in.cfg.PanicOK {
			in.fail(s, "panic", s.msg, "")
		}
	case AssumeFalse:
		in.St.AssumeFalse++
	case Bound:
		in.St.Bound++
		in.fail(s, "bound", s.msg, "")
	case Unsupported:
		in.St.Unsupported++
		in.Failures = append(in.Failures, &Failure{Kind: "unsupported", Label: s.msg, Choices: s.choices()})
	case Fatal:
		in.St.Fatal++
		in.fail(s, "fatal", s.msg, "")
	case Deadlock:
		in.St.Deadlock++
		in.fail(s, "deadlock", s.msg, "")
	}
	in.Failures = append(in.Failures, s.fails...)
	if len(in.Samples) < 3 && s.status == Done {
		var sb strings.Builder
		fmt.Fprintf(&sb, "path choices=%v steps=%d pc=[", s.choices(), s.steps)
		pl := s.pcList()
		for i, c := range pl {
			if i >= 6 {
				fmt.Fprintf(&sb, " …(+%d)", len(pl)-i)
				break
			}
			sb.WriteString(" " + in.showTerm(c, 3))
		}
		sb.WriteString(" ]")
		in.Samples = append(in.Samples, sb.String())
	}
}

// fail records a terminal-state failure with a model of the path condition.
func (in *Interp) fail(s *State, kind, label, pos string) {
	f := &Failure{Kind: kind, Label: label, Pos: pos, Choices: s.choices()}
	if in.modelValid(s) {
		f.Model = in.namedModel(s)
		f.Vector = in.vector(s, f.Model)
		s.fails = append(s.fails, f)
		return
	}
	r, err := in.check(s)
	if err == nil && r == smt.Sat {
		m, merr := in.sol.Model(in.traceVars(s))
		if merr != nil {
			fmt.Fprintln(os.Stderr, "model error:", merr)
		}
		f.Model = m
		f.Vector = in.vector(s, m)
	} else if err == nil && r == smt.Unsat {
		// the path condition is unsatisfiable: the path was kept alive only by an undecided
		// feasibility query; no execution takes it, so there is nothing to report
		in.St.Notes["infeasible-path-dropped"]++
		return
	} else {
		fmt.Fprintln(os.Stderr, "no model for failing state:", r, err)
		f.Vector = in.vector(s, nil)
	}
	s.fails = append(s.fails, f)
}

func (in *Interp) traceVars(s *State) []*term.Term {
	var vs []*term.Term
	for _, r := range s.trace {
		if r.Kind == "v" {
			vs = append(vs, r.Var)
		}
	}
	return vs
}

func (in *Interp) vector(s *State, m map[string]uint64) []uint64 {
	out := make([]uint64, 0, len(s.trace))
	for _, r := range s.trace {
		if r.Kind == "c" {
			out = append(out, r.Val)
		} else {
			out = append(out, m[r.Var.Name])
		}
	}
	return out
}

func (in *Interp) pushFrame(s *State, th *Thread, fn *ssa.Function, args []Value, env []Value, retTo ssa.Value, rk retKind) {
	if len(fn.Blocks) == 0 {
		in.unsup("no body for %s", fn.String())
	}
	if len(th.frames) > 400 {
		in.unsup("call depth > 400 at %s", fn.String())
	}
	in.St.Funcs[fn.String()] = true
	fi := in.info(fn)
	f := &Frame{fn: fn, info: fi, block: fn.Blocks[0], env: make([]Value, fi.n), retTo: retTo, rk: rk}
	if len(args) != len(fn.Params) {
		in.unsup("arity mismatch calling %s: %d args for %d params", fn, len(args), len(fn.Params))
	}
	for i, p := range fn.Params {
		f.env[fi.idx[p]] = args[i]
	}
	for i, fv := range fn.FreeVars {
		f.env[fi.idx[fv]] = env[i]
	}
	th.frames = append(th.frames, f)
}

// run executes s until it terminates or forks; returns extra states.
func (in *Interp) run(s *State) (extra []*State) {
	for s.status == Running {
		if s.steps > in.cfg.MaxSteps {
			s.status = Bound
			s.msg = fmt.Sprintf("step budget %d exceeded", in.cfg.MaxSteps)
			return nil
		}
		th := s.threads[s.cur]
		if th.status == tDone || len(th.frames) == 0 {
			th.status = tDone
			if s.cur == 0 {
				s.status = Done
				return nil
			}
			in.schedule(s, false)
			continue
		}
		if th.panicking && len(th.frames) == th.unwindAt {
			in.safe(s, func() []*State { in.unwind(s, th); return nil })
			continue
		}
		f := th.top()
		if f.unwinding && !th.panicking {
			// a deferred call recovered: f returns to its caller
			in.safe(s, func() []*State { in.recoverReturn(s, th, f); return nil })
			continue
		}
		instr := f.block.Instrs[f.ip]
		s.steps++
		if profileSteps {
			in.StepProf[f.fn]++
		}
		in.curState = s
		forks := in.safe(s, func() []*State { return in.step(s, th, f, instr) })
		if s.status == Running {
			in.afterStep(s, th)
		}
		if len(forks) > 0 {
			return forks
		}
	}
	return nil
}

// safe runs fn and converts host panics used for control flow.
func (in *Interp) safe(s *State, fn func() []*State) (forks []*State) {
	defer func() {
		if r := recover(); r != nil {
			switch e := r.(type) {
			case unsupported:
				s.status = Unsupported
				s.msg = e.msg
				if in.cfg.Verbose {
					fmt.Fprintln(os.Stderr, "UNSUPPORTED:", e.msg, in.where(s))
				}
			case goPanic:
				if in.cfg.Verbose {
					fmt.Fprintln(os.Stderr, "GO PANIC:", e.msg, in.where(s))
				}
				in.raise(s, s.thread(), e)
			case needInit:
				s.inited[e.pkg] = true
				th := s.thread()
				in.pushFrame(s, th, e.pkg.Func("init"), nil, nil, nil, retStay)
			case cannotMerge:
				s.status = Unsupported
				s.msg = "cannot merge values of different shape under a symbolic condition" + in.where(s)
			default:
				fmt.Fprintln(os.Stderr, "INTERNAL at", in.where(s))
				panic(r)
			}
		}
	}()
	return fn()
}

func (in *Interp) where(s *State) string {
	var sb strings.Builder
	th := s.thread()
	for i := len(th.frames) - 1; i >= 0 && i >= len(th.frames)-6; i-- {
		f := th.frames[i]
		if f.ip < len(f.block.Instrs) {
			sb.WriteString("\n    at " + in.pos(f.block.Instrs[f.ip]))
		}
	}
	return sb.String()
}

func (in *Interp) raise(s *State, th *Thread, p goPanic) {
	th.panicking = true
	th.panicVal = p.val
	if p.val == nil {
		th.panicVal = &Iface{T: types.Typ[types.String], V: &Str{S: p.msg}}
	}
	th.panicMsg = p.msg
	th.unwindAt = len(th.frames)
	th.status = tRunnable
}

func (in *Interp) unwind(s *State, th *Thread) {
	f := th.top()
	if len(f.defers) > 0 {
		d := f.defers[len(f.defers)-1]
		f.defers = f.defers[:len(f.defers)-1]
		f.unwinding = true
		in.invokeDeferred(s, th, f, d)
		return
	}
	th.frames = th.frames[:len(th.frames)-1]
	th.unwindAt = len(th.frames)
	if len(th.frames) == 0 {
		s.status = Panicked
		s.msg = th.panicMsg
	}
}

func (in *Interp) recoverReturn(s *State, th *Thread, f *Frame) {
	f.unwinding = false
	if f.fn.Recover != nil {
		f.prev = f.block
		f.block = f.fn.Recover
		f.ip = 0
		return
	}
	// return zero values
	res := f.fn.Signature.Results()
	var rv Value
	switch res.Len() {
	case 0:
	case 1:
		rv = in.zero(res.At(0).Type())
	default:
		rv = in.zero(res)
	}
	in.doReturn(s, th, f, rv)
}

func (in *Interp) doReturn(s *State, th *Thread, f *Frame, rv Value) {
	th.frames = th.frames[:len(th.frames)-1]
	if len(th.frames) == 0 {
		th.status = tDone
		return
	}
	caller := th.top()
	switch f.rk {
	case retNormal:
		if f.retTo != nil {
			caller.set(f.retTo, rv)
		}
		caller.ip++
	case retDiscard:
		caller.ip++
	case retStay:
	case retStrNext:
		in.finishStrNext(s, caller, f.retTo, rv)
		caller.ip++
	}
}

func (in *Interp) addPC(s *State, c *term.Term) {
	if c.IsTrue() {
		return
	}
	in.pcSeq++
	d := 0
	if s.pc != nil {
		d = s.pc.depth + 1
	}
	s.pc = &pcNode{parent: s.pc, c: c, id: in.pcSeq, depth: d}
	if debugPC {
		r, _ := in.check(s)
		if r == smt.Sat {
			in.sol.Pop()
		}
		if r == smt.Unsat {
			fmt.Fprintln(os.Stderr, "PC BECAME UNSAT adding", in.showTerm(c, 4), in.where(s))
			panic("pc unsat")
		}
	}
}

var debugPC = os.Getenv("VERIF_CHECKPC") != ""
var profileSteps = os.Getenv("VERIF_PROFILE") != ""

func (in *Interp) check(s *State, extra ...*term.Term) (smt.Result, error) {
	if in.cfg.NoIncremental {
		return in.sol.Check(append(s.pcList(), extra...))
	}
	return in.sol.CheckInc(s.pcItems(), extra)
}

// modelValid reports whether s carries an assignment that satisfies its whole path condition,
// extending a model known for an ancestor of s.pc by evaluating the conjuncts added since.
func (in *Interp) modelValid(s *State) bool {
	if in.cfg.NoModelCache || s.model == nil {
		return false
	}
	if s.modelPC == s.pc {
		return true
	}
	memo := map[int]uint64{}
	for n := s.pc; n != s.modelPC; n = n.parent {
		if n == nil {
			s.model = nil
			return false
		}
		v, ok := term.Eval(n.c, s.model, memo)
		if !ok || v != 1 {
			s.model = nil
			return false
		}
	}
	s.modelPC = s.pc
	return true
}

// evalModel evaluates c under the state's cached model: (value, have).
func (in *Interp) evalModel(s *State, c *term.Term) (bool, bool) {
	if !in.modelValid(s) {
		return false, false
	}
	v, ok := term.Eval(c, s.model, map[int]uint64{})
	if !ok {
		return false, false
	}
	in.St.ModelHits++
	return v == 1, true
}

// query asks the solver whether pc ∧ c is satisfiable; on sat the model is kept in in.satModel.
func (in *Interp) query(s *State, c *term.Term) bool {
	in.satModel = nil
	pid := 0
	if s.pc != nil {
		pid = s.pc.id
	}
	key := [2]int{pid, c.ID}
	if v, ok := in.feasCache[key]; ok {
		return v
	}
	r, err := in.check(s, c)
	if err != nil {
		in.St.FeasUnknown++
		if in.cfg.Verbose {
			fmt.Fprintln(os.Stderr, "solver error:", err)
		}
	}
	if r == smt.Sat {
		if !in.cfg.NoModelCache {
			if m, merr := in.sol.ModelIDs(in.traceVars(s)); merr == nil {
				in.satModel = m
			}
		}
		in.sol.Pop()
	}
	if r == smt.Unknown {
		in.St.FeasUnknown++
		if in.cfg.Verbose {
			fmt.Fprintln(os.Stderr, "UNKNOWN feasibility:", in.showTerm(c, 8), in.where(s))
		}
	}
	v := r != smt.Unsat
	in.feasCache[key] = v
	return v
}

// feasible: is pc ∧ c satisfiable?  unknown counts as feasible.
func (in *Interp) feasible(s *State, c *term.Term) bool {
	if c.IsTrue() {
		return true
	}
	if c.IsFalse() {
		return false
	}
	if v, have := in.evalModel(s, c); have && v {
		return true
	}
	return in.query(s, c)
}

// known scans the path condition for c or ¬c.
func (in *Interp) known(s *State, c *term.Term) (val, ok bool) {
	nc := in.ts.Not(c)
	for n := s.pc; n != nil; n = n.parent {
		if n.c == c {
			return true, true
		}
		if n.c == nc {
			return false, true
		}
	}
	return false, false
}

// adopt makes m (a model of the state's pc including the conjunct just added) the state's model.
func (in *Interp) adopt(s *State, m map[int]uint64) {
	if m != nil {
		s.model, s.modelPC = m, s.pc
	}
}

// decide gives the truth value of c in s.  If both values are feasible the
// state is forked: the returned state has ¬c added and s has c added; both
// re-execute the current instruction, so decide must be called before the
// instruction has side effects.
func (in *Interp) decide(s *State, c *term.Term) (bool, *State) {
	if c.IsTrue() {
		return true, nil
	}
	if c.IsFalse() {
		return false, nil
	}
	if v, ok := in.known(s, c); ok {
		return v, nil
	}
	nc := in.ts.Not(c)
	if mv, have := in.evalModel(s, c); have {
		// the cached model settles one side for free
		if mv {
			if !in.query(s, nc) {
				in.addPC(s, c)
				return true, nil
			}
			m := in.satModel
			o := s.clone()
			in.addPC(o, nc)
			o.model = nil
			in.adopt(o, m)
			in.addPC(s, c)
			return true, o
		}
		if !in.query(s, c) {
			in.addPC(s, nc)
			return false, nil
		}
		m := in.satModel
		o := s.clone()
		in.addPC(o, nc) // keeps the old model, which satisfies ¬c
		in.addPC(s, c)
		s.model = nil
		in.adopt(s, m)
		return true, o
	}
	if !in.query(s, c) {
		in.addPC(s, nc)
		return false, nil
	}
	mc := in.satModel
	if !in.query(s, nc) {
		in.addPC(s, c)
		in.adopt(s, mc)
		return true, nil
	}
	mn := in.satModel
	o := s.clone()
	in.addPC(o, nc)
	o.model = nil
	in.adopt(o, mn)
	in.addPC(s, c)
	s.model = nil
	in.adopt(s, mc)
	return true, o
}

// concretize makes the value of operand v in frame f concrete by forking on
// its feasible values (at most MaxConcretize).  Returns (value, forks); if
// forks is non-nil the instruction must be re-executed.
func (in *Interp) concretize(s *State, f *Frame, v ssa.Value, what string) (int64, []*State) {
	t := in.get(s, f, v).(*term.Term)
	sg := isSigned(v.Type())
	cv := func(t *term.Term) int64 {
		if sg {
			return signedVal(t.Val, t.S.W)
		}
		return int64(t.Val)
	}
	if t.IsConst() {
		return cv(t), nil
	}
	if _, isConst := v.(*ssa.Const); isConst {
		in.unsup("concretize const")
	}
	// enumerate feasible values
	var vals []*term.Term
	in.sol.Define(t)
	conj := s.pcList()
	for len(vals) <= in.cfg.MaxConcretize {
		r, err := in.sol.Check(conj)
		if err != nil || r == smt.Unknown {
			in.unsup("solver unknown while concretizing %s", what)
		}
		if r == smt.Unsat {
			break
		}
		u, err := in.sol.Value(t)
		in.sol.Pop()
		if err != nil {
			in.unsup("concretize %s: %v", what, err)
		}
		c := in.ts.Const(t.S.W, u)
		vals = append(vals, c)
		conj = append(conj, in.ts.Not(in.ts.Eq(t, c)))
	}
	if len(vals) > in.cfg.MaxConcretize {
		in.unsup("symbolic %s has more than %d feasible values at %s", what, in.cfg.MaxConcretize, in.where(s))
	}
	if len(vals) == 0 {
		s.status = AssumeFalse
		return 0, []*State{}
	}
	sort.Slice(vals, func(i, j int) bool { return vals[i].Val < vals[j].Val })
	var forks []*State
	for i := 1; i < len(vals); i++ {
		forks = append(forks, s.clone())
	}
	// assign after cloning so clones start from the unmodified state
	for i, c := range vals {
		st := s
		if i > 0 {
			st = forks[i-1]
		}
		in.addPC(st, in.ts.Eq(t, c))
		st.thread().top().set(v, c)
	}
	if len(vals) == 1 {
		return cv(vals[0]), nil
	}
	if forks == nil {
		forks = []*State{}
	}
	return 0, forks
}

func signedVal(v uint64, w int) int64 {
	if w >= 64 {
		return int64(v)
	}
	sh := uint(64 - w)
	return int64(v<<sh) >> sh
}

func (in *Interp) alloc(s *State, v Value) *Ptr {
	id := s.nextObj
	s.nextObj++
	s.heap[id] = v
	return &Ptr{Obj: id}
}

func (in *Interp) heapGet(s *State, id int) Value {
	if v, ok := s.heap[id]; ok {
		return v
	}
	if v, ok := in.base[id]; ok {
		return v
	}
	if id >= globalBase {
		g := in.globalByID[id]
		z := in.zero(g.Type().(*types.Pointer).Elem())
		s.heap[id] = z
		return z
	}
	in.unsup("dangling object %d", id)
	return nil
}

func (in *Interp) load(s *State, p *Ptr) Value {
	if p.Obj < 0 {
		panic(goPanic{msg: "nil pointer dereference"})
	}
	v := in.heapGet(s, p.Obj)
	for i, e := range p.Path {
		a, ok := v.(*Agg)
		if !ok {
			in.unsup("load: path into non-aggregate %T", v)
		}
		if e.Sym != nil {
			if i == len(p.Path)-1 {
				if r := in.tableLookup(a, e.Sym); r != nil {
					return r
				}
			}
			// merge over elements, then continue with the rest of the path on the merged value
			var r Value
			for j := len(a.Elems) - 1; j >= 0; j-- {
				ej := in.walk(a.Elems[j], p.Path[i+1:])
				if r == nil {
					r = ej
				} else {
					r = in.merge(in.ts.Eq(e.Sym, in.ts.Const(64, uint64(j))), ej, r)
				}
			}
			return r
		}
		if e.Idx >= len(a.Elems) {
			in.unsup("load: index %d out of aggregate of %d", e.Idx, len(a.Elems))
		}
		v = a.Elems[e.Idx]
	}
	return v
}

// tableLookup encodes a[idx] for an aggregate of scalar terms as an ite chain over maximal
// runs of identical elements (tables such as utf8.first have few runs).
func (in *Interp) tableLookup(a *Agg, idx *term.Term) Value {
	n := len(a.Elems)
	if n == 0 {
		return nil
	}
	for _, e := range a.Elems {
		if _, ok := e.(*term.Term); !ok {
			return nil
		}
	}
	type run struct {
		lo, hi int
		v      *term.Term // constant-value run (delta == false) ...
		delta  bool       // ... or run on which value == index + d
		d      uint64
	}
	// all elements constant bit-vectors: also look for affine runs value = index + d
	allConstBV := true
	w := 0
	for _, e := range a.Elems {
		t := e.(*term.Term)
		if !t.IsConst() || t.S.K != term.KBV {
			allConstBV = false
			break
		}
		w = t.S.W
	}
	var runs []run
	for j := 0; j < n; j++ {
		t := a.Elems[j].(*term.Term)
		if len(runs) > 0 {
			last := &runs[len(runs)-1]
			if !last.delta && last.v == t {
				last.hi = j
				continue
			}
			if allConstBV {
				mask := ^uint64(0)
				if w < 64 {
					mask = uint64(1)<<uint(w) - 1
				}
				d := (t.Val - uint64(j)) & mask
				if last.delta && last.d == d {
					last.hi = j
					continue
				}
				// start an affine run from a single-element constant run
				if !last.delta && last.lo == last.hi && (last.v.Val-uint64(last.lo))&mask == d {
					last.delta, last.d, last.hi = true, d, j
					continue
				}
			}
		}
		runs = append(runs, run{lo: j, hi: j, v: t})
	}
	leaf := func(ru run) *term.Term {
		if !ru.delta {
			return ru.v
		}
		return in.ts.Add(in.ts.Resize(idx, w, false), in.ts.Const(w, ru.d))
	}
	r := leaf(runs[len(runs)-1])
	for k := len(runs) - 2; k >= 0; k-- {
		ru := runs[k]
		var c *term.Term
		if ru.lo == ru.hi {
			c = in.ts.Eq(idx, in.ts.Const(64, uint64(ru.lo)))
		} else {
			c = in.ts.And(in.ts.Ule(in.ts.Const(64, uint64(ru.lo)), idx), in.ts.Ule(idx, in.ts.Const(64, uint64(ru.hi))))
		}
		r = in.ts.Ite(c, leaf(ru), r)
	}
	return r
}

func (in *Interp) walk(v Value, path []PathElem) Value {
	for i, e := range path {
		a, ok := v.(*Agg)
		if !ok {
			in.unsup("walk: path into non-aggregate %T", v)
		}
		if e.Sym != nil {
			var r Value
			for j := len(a.Elems) - 1; j >= 0; j-- {
				ej := in.walk(a.Elems[j], path[i+1:])
				if r == nil {
					r = ej
				} else {
					r = in.merge(in.ts.Eq(e.Sym, in.ts.Const(64, uint64(j))), ej, r)
				}
			}
			return r
		}
		v = a.Elems[e.Idx]
	}
	return v
}

// merge builds ite(c, a, b) over values of identical shape.
func (in *Interp) merge(c *term.Term, a, b Value) Value {
	if c.IsTrue() {
		return a
	}
	if c.IsFalse() {
		return b
	}
	switch x := a.(type) {
	case *term.Term:
		return in.ts.Ite(c, x, b.(*term.Term))
	case *Agg:
		y := b.(*Agg)
		if x == y {
			return x
		}
		n := &Agg{Elems: make([]Value, len(x.Elems))}
		for i := range x.Elems {
			n.Elems[i] = in.merge(c, x.Elems[i], y.Elems[i])
		}
		return n
	case *Str:
		y := b.(*Str)
		if in.strLen(x) == in.strLen(y) {
			xb, yb := in.strBytes(x), in.strBytes(y)
			n := &Str{B: make([]*term.Term, len(xb))}
			same := true
			for i := range xb {
				n.B[i] = in.ts.Ite(c, xb[i], yb[i])
				if xb[i] != yb[i] {
					same = false
				}
			}
			if same {
				return x
			}
			if len(xb) == 0 {
				return x
			}
			return n
		}
	case *Ptr:
		y := b.(*Ptr)
		if x.key() == y.key() {
			return x
		}
	case *Slice:
		y := b.(*Slice)
		if x.Arr == nil && y.Arr == nil {
			return x
		}
		if x.Arr != nil && y.Arr != nil && x.Arr.key() == y.Arr.key() && x.Off == y.Off && x.Len == y.Len && x.Cap == y.Cap {
			return x
		}
	case *Iface:
		y := b.(*Iface)
		if x.T == nil && y.T == nil {
			return x
		}
		if x.T != nil && y.T != nil && types.Identical(x.T, y.T) {
			return &Iface{T: x.T, V: in.merge(c, x.V, y.V)}
		}
	case *MapRef:
		if x.Obj == b.(*MapRef).Obj {
			return x
		}
	case *Func:
		y := b.(*Func)
		if x.Fn == y.Fn && len(x.Env) == 0 && len(y.Env) == 0 && x.Intr == y.Intr {
			return x
		}
	}
	panic(cannotMerge{})
}

type cannotMerge struct{}

func (in *Interp) update(v Value, path []PathElem, nv Value) Value {
	if len(path) == 0 {
		return nv
	}
	a, ok := v.(*Agg)
	if !ok {
		in.unsup("store: path into non-aggregate %T", v)
	}
	e := path[0]
	na := &Agg{Elems: make([]Value, len(a.Elems))}
	copy(na.Elems, a.Elems)
	if e.Sym != nil {
		for j := range na.Elems {
			c := in.ts.Eq(e.Sym, in.ts.Const(64, uint64(j)))
			if c.IsFalse() {
				continue
			}
			na.Elems[j] = in.merge(c, in.update(a.Elems[j], path[1:], nv), a.Elems[j])
		}
		return na
	}
	if e.Idx >= len(a.Elems) {
		in.unsup("store: index %d out of aggregate of %d", e.Idx, len(a.Elems))
	}
	na.Elems[e.Idx] = in.update(a.Elems[e.Idx], path[1:], nv)
	return na
}

func (in *Interp) store(s *State, p *Ptr, v Value) {
	if p.Obj < 0 {
		panic(goPanic{msg: "nil pointer dereference (store)"})
	}
	s.heap[p.Obj] = in.update(in.heapGet(s, p.Obj), p.Path, v)
}

func (in *Interp) get(s *State, f *Frame, v ssa.Value) Value {
	switch x := v.(type) {
	case *ssa.Const:
		return in.constVal(x)
	case *ssa.Function:
		return &Func{Fn: x}
	case *ssa.Global:
		return in.globalPtr(s, x)
	case *ssa.Builtin:
		return &Builtin{Name: x.Name()}
	}
	i, ok := f.info.idx[v]
	if !ok {
		in.unsup("value %s (%T) not in env of %s", v.Name(), v, f.fn)
	}
	r := f.env[i]
	if r == nil {
		in.unsup("value %s of %s read before set", v.Name(), f.fn)
	}
	return r
}

// package os is never initialised; its error sentinels are the io/fs ones
var osErrAlias = map[string]string{"ErrNotExist": "ErrNotExist", "ErrExist": "ErrExist", "ErrPermission": "ErrPermission", "ErrClosed": "ErrClosed", "ErrInvalid": "ErrInvalid"}

func (in *Interp) globalPtr(s *State, g *ssa.Global) *Ptr {
	if g.Pkg != nil && g.Pkg.Pkg.Path() == "os" {
		if a, ok := osErrAlias[g.Name()]; ok {
			if fsPkg := in.prog.ImportedPackage("io/fs"); fsPkg != nil {
				if fg, ok := fsPkg.Members[a].(*ssa.Global); ok {
					return in.globalPtr(s, fg)
				}
			}
		}
	}
	if g.Pkg != nil && !s.inited[g.Pkg] && !in.isBlackhole(g.Pkg.Pkg.Path()) && !(noInit[g.Pkg.Pkg.Path()] && !(g.Pkg.Pkg.Path() == "context" && in.cfg.Models["real-context"])) && g.Pkg.Func("init") != nil {
		if g.Name() != "init$guard" {
			panic(needInit{g.Pkg})
		}
	}
	id, ok := in.globalID[g]
	if !ok {
		id = globalBase + len(in.globalID)
		in.globalID[g] = id
		in.globalByID[id] = g
	}
	return &Ptr{Obj: id}
}

// packages whose init is never run (their globals stay zero; functions that need them are intrinsics)
var noInit = map[string]bool{
	"runtime": true, "unicode": true, "os": true, "syscall": true, "reflect": true, "internal/reflectlite": true,
	"time": true, "sync": true, "sync/atomic": true, "internal/godebug": true, "internal/poll": true,
	"internal/bytealg": true, "internal/cpu": true, "math": true, "fmt": true, "log": true,
	"context": true, "net": true, "math/rand": true, "math/rand/v2": true,
}

func (in *Interp) isBlackhole(path string) bool {
	for _, p := range in.cfg.Blackhole {
		if strings.HasPrefix(path, p) {
			return true
		}
	}
	return false
}

func (in *Interp) constVal(c *ssa.Const) Value {
	t := c.Type()
	if c.Value == nil {
		return in.zero(t)
	}
	switch u := t.Underlying().(type) {
	case *types.Basic:
		switch {
		case u.Info()&types.IsBoolean != 0:
			return in.ts.BoolC(constant.BoolVal(c.Value))
		case u.Info()&types.IsInteger != 0:
			w := intWidth(u)
			if i, ok := constant.Int64Val(constant.ToInt(c.Value)); ok {
				return in.ts.Const(w, uint64(i))
			}
			uu, _ := constant.Uint64Val(constant.ToInt(c.Value))
			return in.ts.Const(w, uu)
		case u.Info()&types.IsFloat != 0:
			fv, _ := constant.Float64Val(constant.ToFloat(c.Value))
			return in.ts.FConst(floatWidth(t), fv)
		case u.Info()&types.IsString != 0:
			return &Str{S: constant.StringVal(c.Value)}
		}
	case *types.TypeParam:
		in.unsup("const of type parameter %v", t)
	}
	in.unsup("const of type %v", t)
	return nil
}

func (in *Interp) jump(f *Frame, to *ssa.BasicBlock) {
	f.prev = f.block
	f.block = to
	f.ip = 0
}

func (in *Interp) pos(i ssa.Instruction) string {
	p := in.prog.Fset.Position(i.Pos())
	fn := ""
	if i.Parent() != nil {
		fn = i.Parent().String()
	}
	if !p.IsValid() {
		return fn
	}
	return fmt.Sprintf("%s (%s:%d)", fn, shortFile(p.Filename), p.Line)
}

func shortFile(s string) string {
	if i := strings.LastIndex(s, "/"); i >= 0 {
		return s[i+1:]
	}
	return s
}

func (in *Interp) showTerm(t *term.Term, depth int) string {
	switch t.Op {
	case term.OpConst, term.OpVar:
		return t.Ref()
	}
	if depth == 0 {
		return "…"
	}
	var sb strings.Builder
	sb.WriteString("(" + t.OpName())
	for _, a := range t.Args {
		sb.WriteString(" " + in.showTerm(a, depth-1))
	}
	sb.WriteString(")")
	return sb.String()
}

func (in *Interp) show(v Value) string {
	switch x := v.(type) {
	case *Iface:
		if x.T == nil {
			return "nil"
		}
		return fmt.Sprintf("%s(%s)", x.T.String(), in.show(x.V))
	case *Str:
		if x.A != nil {
			return fmt.Sprintf("<aliasing string len %d>", x.A.Len)
		}
		if x.B == nil {
			return fmt.Sprintf("%q", x.S)
		}
		return fmt.Sprintf("<sym string len %d>", len(x.B))
	case *term.Term:
		return in.showTerm(x, 2)
	case *Ptr:
		if x.Obj >= 0 {
			return "&obj" + x.key()
		}
		return "nil"
	}
	return fmt.Sprintf("%T", v)
}

var _ = token.ADD
