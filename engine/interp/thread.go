package interp

import (
	"fmt"
	"go/types"

	"golang.org/x/tools/go/ssa"

	"gosym/term"
)

// block marks the current thread as unable to proceed; the run loop switches threads.
func (in *Interp) block(s *State, th *Thread) {
	th.status = tBlocked
}

// schedule switches to the next live thread. Returns false if none.
func (in *Interp) schedule(s *State, blocked bool) bool {
	n := len(s.threads)
	for i := 1; i <= n; i++ {
		j := (s.cur + i) % n
		t := s.threads[j]
		if t.status != tDone && len(t.frames) > 0 {
			s.cur = j
			return true
		}
	}
	return false
}

func (in *Interp) live(s *State) int {
	n := 0
	for _, t := range s.threads {
		if t.status != tDone && len(t.frames) > 0 {
			n++
		}
	}
	return n
}

// afterStep is called by the run loop after every step of thread th.
func (in *Interp) afterStep(s *State, th *Thread) {
	if th.status == tBlocked {
		th.status = tRunnable
		s.stall++
		if s.stall > in.live(s)+1 {
			s.status = Deadlock
			s.msg = "all goroutines are blocked" + in.where(s)
			return
		}
		in.schedule(s, true)
		return
	}
	s.stall = 0
}

func (in *Interp) chanOf(s *State, v Value) (*Ptr, *ChanData) {
	p, ok := v.(*Ptr)
	if !ok {
		in.unsup("channel op on %T", v)
	}
	if p.Obj < 0 {
		return p, nil
	}
	d, ok := in.heapGet(s, p.Obj).(*ChanData)
	if !ok {
		in.unsup("channel op on non-channel object")
	}
	return p, d
}

func (in *Interp) sendInstr(s *State, th *Thread, f *Frame, x *ssa.Send) []*State {
	p, d := in.chanOf(s, in.get(s, f, x.Chan))
	if d == nil {
		in.block(s, th)
		return nil
	}
	if d.Closed {
		panic(goPanic{msg: "send on closed channel at " + in.pos(x)})
	}
	v := in.get(s, f, x.X)
	if in.trySend(s, th, p, d, v) {
		f.ip++
		return nil
	}
	in.block(s, th)
	return nil
}

// trySend: buffered: enqueue if room. unbuffered: enqueue in SendQ once, complete when picked up.
func (in *Interp) trySend(s *State, th *Thread, p *Ptr, d *ChanData, v Value) bool {
	me := s.cur
	if d.Cap > 0 {
		if len(d.Buf) < d.Cap {
			nd := *d
			nd.Buf = append(append([]Value(nil), d.Buf...), v)
			s.heap[p.Obj] = &nd
			return true
		}
		return false
	}
	if th.hasMail { // picked up by a receiver
		th.hasMail = false
		return true
	}
	for _, w := range d.SendQ {
		if w.Thread == me {
			return false // still waiting
		}
	}
	nd := *d
	nd.SendQ = append(append([]chanWaiter(nil), d.SendQ...), chanWaiter{Thread: me, V: v})
	s.heap[p.Obj] = &nd
	return false
}

// tryRecv returns (value, ok, ready).
func (in *Interp) tryRecv(s *State, p *Ptr, d *ChanData, elem types.Type) (Value, bool, bool) {
	if len(d.Buf) > 0 {
		nd := *d
		nd.Buf = append([]Value(nil), d.Buf[1:]...)
		s.heap[p.Obj] = &nd
		return d.Buf[0], true, true
	}
	if len(d.SendQ) > 0 {
		w := d.SendQ[0]
		nd := *d
		nd.SendQ = append([]chanWaiter(nil), d.SendQ[1:]...)
		s.heap[p.Obj] = &nd
		s.threads[w.Thread].hasMail = true
		return w.V, true, true
	}
	if d.Closed {
		return in.zero(elem), false, true
	}
	return nil, false, false
}

func (in *Interp) recvInstr(s *State, th *Thread, f *Frame, x *ssa.UnOp) []*State {
	p, d := in.chanOf(s, in.get(s, f, x.X))
	if d == nil {
		in.block(s, th)
		return nil
	}
	elem := x.X.Type().Underlying().(*types.Chan).Elem()
	v, ok, ready := in.tryRecv(s, p, d, elem)
	if !ready {
		in.block(s, th)
		return nil
	}
	if x.CommaOk {
		f.set(x, &Agg{Elems: []Value{v, in.ts.BoolC(ok)}})
	} else {
		f.set(x, v)
	}
	f.ip++
	return nil
}

func (in *Interp) selectInstr(s *State, th *Thread, f *Frame, x *ssa.Select) []*State {
	// result tuple: (index, recvOk, r0, r1, ...)
	nrecv := 0
	for _, st := range x.States {
		if st.Dir == types.RecvOnly {
			nrecv++
		}
	}
	mk := func(idx int, recvOk bool, which int, val Value) Value {
		a := &Agg{Elems: make([]Value, 2+nrecv)}
		a.Elems[0] = in.ts.Const(64, uint64(int64(idx)))
		a.Elems[1] = in.ts.BoolC(recvOk)
		k := 0
		for i, st := range x.States {
			if st.Dir == types.RecvOnly {
				if i == which {
					a.Elems[2+k] = val
				} else {
					a.Elems[2+k] = in.zero(st.Chan.Type().Underlying().(*types.Chan).Elem())
				}
				k++
			}
		}
		return a
	}
	for i, st := range x.States {
		p, d := in.chanOf(s, in.get(s, f, st.Chan))
		if d == nil {
			continue
		}
		if st.Dir == types.RecvOnly {
			elem := st.Chan.Type().Underlying().(*types.Chan).Elem()
			v, ok, ready := in.tryRecv(s, p, d, elem)
			if ready {
				f.set(x, mk(i, ok, i, v))
				f.ip++
				return nil
			}
		} else {
			if d.Closed {
				panic(goPanic{msg: "send on closed channel (select) at " + in.pos(x)})
			}
			if d.Cap > 0 {
				if in.trySend(s, th, p, d, in.get(s, f, st.Send)) {
					f.set(x, mk(i, false, -1, nil))
					f.ip++
					return nil
				}
			} else {
				in.unsup("select with send on unbuffered channel at %s", in.pos(x))
			}
		}
	}
	if !x.Blocking {
		f.set(x, mk(-1, false, -1, nil))
		f.ip++
		return nil
	}
	in.block(s, th)
	return nil
}

// ---------------------------------------------------------------- sync

func ptrKey(v Value) string {
	p, ok := v.(*Ptr)
	if !ok {
		panic(unsupported{fmt.Sprintf("sync object is %T", v)})
	}
	return p.key()
}

func init() {
	reg := func(name string, h intrFn) { intrinsics[name] = h }
	// preemptPoint explores, for harnesses that ask for it, a context switch right before a lock
	// operation: the state forks into "goes on" and "the other goroutines run first".
	preemptPoint := func(in *Interp, s *State, c *callCtx) ([]*State, bool) {
		if !in.cfg.PreemptAtSync {
			return nil, false
		}
		th := c.th
		switch th.preempt {
		case 0:
			if in.live(s) <= 1 {
				return nil, false
			}
			o := s.clone()
			o.threads[o.cur].preempt = 1
			th.preempt = 2
			return []*State{o}, true // both states re-execute the call
		case 1:
			th.preempt = 3
			in.block(s, th)
			s.stall = -1 // a yield, not a stall
			return nil, true
		case 3:
			th.preempt = 2
		}
		return nil, false
	}
	lock := func(in *Interp, s *State, c *callCtx) (Value, []*State, bool) {
		if forks, stop := preemptPoint(in, s, c); stop {
			return nil, forks, false
		}
		k := ptrKey(c.args[0])
		l := s.locks[k]
		if l.Writer || l.Readers > 0 {
			in.block(s, c.th)
			return nil, nil, false
		}
		l.Writer = true
		s.locks[k] = l
		c.th.preempt = 0
		return nil, nil, true
	}
	unlock := func(in *Interp, s *State, c *callCtx) (Value, []*State, bool) {
		k := ptrKey(c.args[0])
		l := s.locks[k]
		if !l.Writer {
			panic(goPanic{msg: "sync: unlock of unlocked mutex at " + in.pos(c.at)})
		}
		l.Writer = false
		s.locks[k] = l
		return nil, nil, true
	}
	tryLock := func(in *Interp, s *State, c *callCtx) (Value, []*State, bool) {
		k := ptrKey(c.args[0])
		l := s.locks[k]
		if l.Writer || l.Readers > 0 {
			return in.ts.BoolC(false), nil, true
		}
		l.Writer = true
		s.locks[k] = l
		return in.ts.BoolC(true), nil, true
	}
	reg("(*sync.Mutex).Lock", lock)
	reg("(*sync.Mutex).Unlock", unlock)
	reg("(*sync.Mutex).TryLock", tryLock)
	reg("(*sync.RWMutex).Lock", lock)
	reg("(*sync.RWMutex).Unlock", unlock)
	reg("(*sync.RWMutex).TryLock", tryLock)
	reg("(*sync.RWMutex).RLock", func(in *Interp, s *State, c *callCtx) (Value, []*State, bool) {
		if forks, stop := preemptPoint(in, s, c); stop {
			return nil, forks, false
		}
		k := ptrKey(c.args[0])
		l := s.locks[k]
		if l.Writer {
			in.block(s, c.th)
			return nil, nil, false
		}
		l.Readers++
		s.locks[k] = l
		c.th.preempt = 0
		return nil, nil, true
	})
	reg("(*sync.RWMutex).RUnlock", func(in *Interp, s *State, c *callCtx) (Value, []*State, bool) {
		k := ptrKey(c.args[0])
		l := s.locks[k]
		if l.Readers <= 0 {
			panic(goPanic{msg: "sync: RUnlock of unlocked RWMutex at " + in.pos(c.at)})
		}
		l.Readers--
		s.locks[k] = l
		return nil, nil, true
	})
	reg("(*sync.WaitGroup).Add", func(in *Interp, s *State, c *callCtx) (Value, []*State, bool) {
		k := ptrKey(c.args[0])
		d := c.args[1].(*term.Term)
		if !d.IsConst() {
			in.unsup("WaitGroup.Add of symbolic delta")
		}
		s.counters[k] += int(signedVal(d.Val, d.S.W))
		if s.counters[k] < 0 {
			panic(goPanic{msg: "sync: negative WaitGroup counter at " + in.pos(c.at)})
		}
		return nil, nil, true
	})
	reg("(*sync.WaitGroup).Done", func(in *Interp, s *State, c *callCtx) (Value, []*State, bool) {
		k := ptrKey(c.args[0])
		s.counters[k]--
		if s.counters[k] < 0 {
			panic(goPanic{msg: "sync: negative WaitGroup counter at " + in.pos(c.at)})
		}
		return nil, nil, true
	})
	reg("(*sync.WaitGroup).Wait", func(in *Interp, s *State, c *callCtx) (Value, []*State, bool) {
		k := ptrKey(c.args[0])
		if s.counters[k] > 0 {
			in.block(s, c.th)
			return nil, nil, false
		}
		return nil, nil, true
	})
	// sync.Pool: Get returns the most recently Put object if there is one (what a single goroutine
	// observes without GC), else New(); re-use is the adversarial choice for state leaking between uses
	reg("(*sync.Pool).Get", func(in *Interp, s *State, c *callCtx) (Value, []*State, bool) {
		p := c.args[0].(*Ptr)
		k := p.key()
		if l := s.pools[k]; len(l) > 0 {
			v := l[len(l)-1]
			s.pools[k] = l[:len(l)-1]
			return v, nil, true
		}
		pool := in.load(s, p).(*Agg)
		// field "New" is the last field of sync.Pool
		nf, ok := pool.Elems[len(pool.Elems)-1].(*Func)
		if !ok || nf.Fn == nil {
			return &Iface{}, nil, true
		}
		in.pushFrame(s, c.th, nf.Fn, nil, nf.Env, c.retTo, c.rk)
		return nil, nil, false
	})
	reg("(*sync.Pool).Put", func(in *Interp, s *State, c *callCtx) (Value, []*State, bool) {
		if iv, ok := c.args[1].(*Iface); ok && iv.T == nil {
			return nil, nil, true
		}
		if s.pools == nil {
			s.pools = map[string][]Value{}
		}
		k := c.args[0].(*Ptr).key()
		s.pools[k] = append(append([]Value(nil), s.pools[k]...), c.args[1])
		return nil, nil, true
	})
	// Gosched yields once: the other live threads get to run until they block or finish
	reg("runtime.Gosched", func(in *Interp, s *State, c *callCtx) (Value, []*State, bool) {
		if c.th.yielded {
			c.th.yielded = false
			return nil, nil, true
		}
		if in.live(s) <= 1 {
			return nil, nil, true
		}
		c.th.yielded = true
		in.block(s, c.th)
		s.stall = -1 // a yield is not a stall
		return nil, nil, false
	})
}
