package interp

import (
	"fmt"

	"golang.org/x/tools/go/ssa"

	"gosym/smt"
	"gosym/term"
)

type Status int

const (
	Running Status = iota
	Done
	Panicked
	AssumeFalse
	Bound
	Unsupported
	Fatal
	Deadlock
)

func (st Status) String() string {
	return [...]string{"running", "done", "panicked", "assume-false", "bound", "unsupported", "fatal", "deadlock"}[st]
}

type retKind uint8

const (
	retNormal  retKind = iota // bind result, advance caller
	retStay                   // discard result, caller re-executes its instruction
	retStrNext                // result of DecodeRune for a string range Next
	retDiscard                // discard result, advance caller
)

type deferRec struct {
	fn   Value // *Func, *Builtin, or invoke on iface (method bound)
	args []Value
	call *ssa.CallCommon
	pos  ssa.Instruction
}

type Frame struct {
	fn        *ssa.Function
	info      *fnInfo
	block     *ssa.BasicBlock
	prev      *ssa.BasicBlock
	ip        int
	env       []Value
	retTo     ssa.Value
	rk        retKind
	defers    []*deferRec
	unwinding bool
	deferred  bool // this frame is a deferred function invoked by the defer mechanism (recover works only directly in such a frame)
}

type tStatus uint8

const (
	tRunnable tStatus = iota
	tBlocked
	tDone
)

type Thread struct {
	frames    []*Frame
	status    tStatus
	panicking bool
	panicVal  Value
	panicMsg  string
	unwindAt  int
	// value handed over by a partner (select / recv completion)
	mailbox Value
	hasMail bool
	yielded bool
	preempt uint8 // PreemptAtSync: 0 = decide at the next lock operation, 1 = must yield first, 2 = go on, 3 = yielded, go on when rescheduled
}

func (t *Thread) top() *Frame { return t.frames[len(t.frames)-1] }

type pcNode struct {
	parent *pcNode
	c      *term.Term
	id     int
	depth  int
}

type nondetRec struct {
	Kind string // "v" variable, "c" choice
	Var  *term.Term
	Val  uint64
	Site string
}

type lockState struct {
	Writer  bool
	Readers int
}

type State struct {
	heap     map[int]Value
	nextObj  int
	threads  []*Thread
	cur      int
	stall    int
	pc       *pcNode
	inited   map[*ssa.Package]bool
	locks    map[string]lockState
	counters map[string]int // WaitGroup counters
	pools    map[string][]Value // sync.Pool contents (LIFO): Get returns the last Put object if any
	trace    []nondetRec
	nchoice  int
	steps    int
	status   Status
	msg      string
	reach    map[string]bool
	fails    []*Failure
	notes    []string
	uf       map[string][]ufApp
	model    map[int]uint64 // assignment (var term ID -> value) known to satisfy the pc up to modelPC; immutable, shared
	modelPC  *pcNode
}

type ufApp struct {
	args []*term.Term
	res  *term.Term
}

type Failure struct {
	Kind    string // assert | panic | fatal | deadlock | bound | unknown
	Label   string
	Pos     string
	Model   map[string]uint64
	Vector  []uint64
	Choices []int
}

func (s *State) clone() *State {
	n := &State{
		heap: make(map[int]Value, len(s.heap)+8), nextObj: s.nextObj,
		threads: make([]*Thread, len(s.threads)), cur: s.cur, stall: s.stall, pc: s.pc,
		inited: make(map[*ssa.Package]bool, len(s.inited)),
		locks:  make(map[string]lockState, len(s.locks)), counters: make(map[string]int, len(s.counters)),
		trace: append([]nondetRec(nil), s.trace...), nchoice: s.nchoice, steps: s.steps, status: s.status, msg: s.msg,
		reach: make(map[string]bool, len(s.reach)), fails: append([]*Failure(nil), s.fails...),
		notes: append([]string(nil), s.notes...),
		model: s.model, modelPC: s.modelPC,
	}
	for k, v := range s.heap {
		n.heap[k] = v
	}
	for k, v := range s.inited {
		n.inited[k] = v
	}
	for k, v := range s.locks {
		n.locks[k] = v
	}
	for k, v := range s.counters {
		n.counters[k] = v
	}
	if s.pools != nil {
		n.pools = make(map[string][]Value, len(s.pools))
		for k, v := range s.pools {
			n.pools[k] = append([]Value(nil), v...)
		}
	}
	for k, v := range s.reach {
		n.reach[k] = v
	}
	if s.uf != nil {
		n.uf = make(map[string][]ufApp, len(s.uf))
		for k, v := range s.uf {
			n.uf[k] = append([]ufApp(nil), v...)
		}
	}
	for i, t := range s.threads {
		nt := *t
		nt.frames = make([]*Frame, len(t.frames))
		for j, f := range t.frames {
			nf := *f
			nf.env = make([]Value, len(f.env))
			copy(nf.env, f.env)
			nf.defers = append([]*deferRec(nil), f.defers...)
			nt.frames[j] = &nf
		}
		n.threads[i] = &nt
	}
	return n
}

func (s *State) thread() *Thread { return s.threads[s.cur] }

func (s *State) pcList() []*term.Term {
	var out []*term.Term
	for n := s.pc; n != nil; n = n.parent {
		out = append(out, n.c)
	}
	// reverse for stable order
	for i, j := 0, len(out)-1; i < j; i, j = i+1, j-1 {
		out[i], out[j] = out[j], out[i]
	}
	return out
}

func (s *State) pcItems() []smt.PCItem {
	n := 0
	if s.pc != nil {
		n = s.pc.depth + 1
	}
	out := make([]smt.PCItem, n)
	for p := s.pc; p != nil; p = p.parent {
		out[p.depth] = smt.PCItem{ID: p.id, C: p.c}
	}
	return out
}

func (s *State) choices() []int {
	var c []int
	for _, r := range s.trace {
		if r.Kind == "c" {
			c = append(c, int(r.Val))
		}
	}
	return c
}

type fnInfo struct {
	idx map[ssa.Value]int
	n   int
}

func (in *Interp) info(fn *ssa.Function) *fnInfo {
	if fi, ok := in.fninfo[fn]; ok {
		return fi
	}
	fi := &fnInfo{idx: map[ssa.Value]int{}}
	add := func(v ssa.Value) {
		fi.idx[v] = fi.n
		fi.n++
	}
	for _, p := range fn.Params {
		add(p)
	}
	for _, p := range fn.FreeVars {
		add(p)
	}
	for _, b := range fn.Blocks {
		for _, i := range b.Instrs {
			if v, ok := i.(ssa.Value); ok {
				add(v)
			}
		}
	}
	in.fninfo[fn] = fi
	return fi
}

func (f *Frame) set(v ssa.Value, x Value) {
	i, ok := f.info.idx[v]
	if !ok {
		panic(fmt.Sprintf("set: value %s not in function %s", v.Name(), f.fn))
	}
	f.env[i] = x
}
