package verifrt

import (
	"math"
	"unicode/utf8"
)

func mathFloat64frombits(b uint64) float64 { return math.Float64frombits(b) }

func utf8DecodeRuneInString(s string) (rune, int) { return utf8.DecodeRuneInString(s) }
func utf8AppendRune(b []byte, r rune) []byte      { return utf8.AppendRune(b, r) }
