package verifrt

import "math"

func mathFloat64frombits(b uint64) float64 { return math.Float64frombits(b) }
