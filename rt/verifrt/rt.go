// Package verifrt is the harness runtime.  It exists only in overlays (never in
// /repo).  Under the symbolic engine (gosym) calls to the functions marked
// "intrinsic" are intercepted; compiled natively they read a replay vector.
package verifrt

import (
	"encoding/json"
	"fmt"
	"math/rand"
	"os"
	"strconv"
	"sync"
)

var vec []uint64
var pos int
var params = map[string]int{}
var loaded bool

func load() {
	if loaded {
		return
	}
	loaded = true
	if p := os.Getenv("VERIF_REPLAY"); p != "" {
		b, err := os.ReadFile(p)
		if err != nil {
			panic(err)
		}
		var r struct {
			Vector []uint64       `json:"vector"`
			Params map[string]int `json:"params"`
		}
		if err := json.Unmarshal(b, &r); err != nil {
			panic(err)
		}
		vec, params = r.Vector, r.Params
	}
}

// nextMu: native runs may draw values from several goroutines
var nextMu sync.Mutex

func next() uint64 {
	nextMu.Lock()
	defer nextMu.Unlock()
	load()
	if pos >= len(vec) {
		pos++
		return 0
	}
	v := vec[pos]
	pos++
	return v
}

// ---- intrinsics ---------------------------------------------------------

func NondetU8() uint8    { return uint8(next()) }
func NondetU16() uint16  { return uint16(next()) }
func NondetU32() uint32  { return uint32(next()) }
func NondetU64() uint64  { return next() }
func NondetInt() int     { return int(next()) }
func NondetI64() int64   { return int64(next()) }
func NondetI32() int32   { return int32(next()) }
func NondetBool() bool   { return next() != 0 }
func NondetF64() float64 { return f64frombits(next()) }

// Choose forks the symbolic execution over 0..n-1.
func Choose(n int) int {
	v := int(next())
	if n <= 0 {
		panic(AssumeViolated{"Choose(0)"})
	}
	if v >= n {
		panic(AssumeViolated{"Choose out of range"})
	}
	return v
}

// ChooseSchedule is a scheduling decision (which goroutine goes on).  The engine explores it like
// Choose.  A native run cannot impose a schedule on the Go runtime, so it consumes the slot of the
// replay vector and draws the decision at random; the harness repeats its scenario Repeat() times,
// and a counterexample counts as reproduced when some repetition ends in the same failure.
func ChooseSchedule(n int) int {
	next()
	return rand.Intn(n)
}

// Repeat: how often a natively running harness with scheduling decisions repeats its scenario
// (1 under the engine, which enumerates the decisions instead).
func Repeat() int { return 40 }

type AssumeViolated struct{ What string }
type AssertFailed struct{ Label string }
type FatalCalled struct{ Msg string }

func Assume(b bool) {
	if !b {
		panic(AssumeViolated{"assume"})
	}
}

func Assert(b bool, label string) {
	if !b {
		panic(AssertFailed{label})
	}
}

func Reach(label string) {}
func Note(label string)  {}

// Symbolic reports whether the harness runs under the symbolic engine.
func Symbolic() bool { return false }

func And(a, b bool) bool     { return a && b }
func Or(a, b bool) bool      { return a || b }
func Implies(a, b bool) bool { return !a || b }
func Not(a bool) bool        { return !a }

func IteInt(c bool, a, b int) int {
	if c {
		return a
	}
	return b
}
func IteI64(c bool, a, b int64) int64 {
	if c {
		return a
	}
	return b
}
func IteU64(c bool, a, b uint64) uint64 {
	if c {
		return a
	}
	return b
}
func IteU32(c bool, a, b uint32) uint32 {
	if c {
		return a
	}
	return b
}
func IteU8(c bool, a, b uint8) uint8 {
	if c {
		return a
	}
	return b
}
func IteBool(c bool, a, b bool) bool {
	if c {
		return a
	}
	return b
}
func IteF64(c bool, a, b float64) float64 {
	if c {
		return a
	}
	return b
}

// Fatal marks a terminal "process would exit" state.
func Fatal(msg string) { panic(FatalCalled{msg}) }

// Param returns a bound chosen by the tier (spec.json).
func Param(name string) int {
	load()
	v, ok := params[name]
	if !ok {
		if e := os.Getenv("VERIF_PARAM_" + name); e != "" {
			v, _ = strconv.Atoi(e)
			return v
		}
		panic("verifrt: unknown param " + name)
	}
	return v
}

// UF2 is an uninterpreted function of two arguments (natively: the real operation is
// supplied by the harness through fn).
func UF2(name string, a, b uint64) uint64 { panic("verifrt.UF2 is symbolic-only") }

// ---- plain Go helpers (interpreted like any other code) ------------------

func NondetBytes(n int) []byte {
	b := make([]byte, n)
	for i := range b {
		b[i] = NondetU8()
	}
	return b
}

func NondetString(n int) string { return string(NondetBytes(n)) }

// FmtErr is what the engine's fmt.Errorf intrinsic returns.
type FmtErr struct {
	Msg     string
	Wrapped error
}

func (e *FmtErr) Error() string { return e.Msg }
func (e *FmtErr) Unwrap() error { return e.Wrapped }

// ErrorsIs is the reflection-free replacement of errors.Is used by the engine.
func ErrorsIs(err, target error) bool {
	for i := 0; i < 16 && err != nil; i++ {
		if err == target {
			return true
		}
		if x, ok := err.(interface{ Is(error) bool }); ok && x.Is(target) {
			return true
		}
		u, ok := err.(interface{ Unwrap() error })
		if !ok {
			return false
		}
		err = u.Unwrap()
	}
	return false
}

func ErrorsUnwrap(err error) error {
	u, ok := err.(interface{ Unwrap() error })
	if !ok {
		return nil
	}
	return u.Unwrap()
}

// bytealg replacements
func IndexByte(b []byte, c byte) int {
	for i, x := range b {
		if x == c {
			return i
		}
	}
	return -1
}
func IndexByteString(s string, c byte) int {
	for i := 0; i < len(s); i++ {
		if s[i] == c {
			return i
		}
	}
	return -1
}
func CountString(s string, c byte) int {
	n := 0
	for i := 0; i < len(s); i++ {
		if s[i] == c {
			n++
		}
	}
	return n
}
func Count(b []byte, c byte) int {
	n := 0
	for _, x := range b {
		if x == c {
			n++
		}
	}
	return n
}
func Compare(a, b []byte) int {
	n := len(a)
	if len(b) < n {
		n = len(b)
	}
	for i := 0; i < n; i++ {
		if a[i] != b[i] {
			if a[i] < b[i] {
				return -1
			}
			return 1
		}
	}
	if len(a) < len(b) {
		return -1
	}
	if len(a) > len(b) {
		return 1
	}
	return 0
}
func CompareString(a, b string) int {
	if a == b {
		return 0
	}
	if a < b {
		return -1
	}
	return 1
}
func IndexString(s, sub string) int {
	n := len(sub)
	for i := 0; i+n <= len(s); i++ {
		if s[i:i+n] == sub {
			return i
		}
	}
	return -1
}
func Index(s, sub []byte) int {
	n := len(sub)
	for i := 0; i+n <= len(s); i++ {
		if string(s[i:i+n]) == string(sub) {
			return i
		}
	}
	return -1
}
func EqualBytes(a, b []byte) bool { return string(a) == string(b) }

// ---- native replay driver ----------------------------------------------

// RunReplay runs fn against the replay vector and prints one outcome line.
func RunReplay(fn func()) (outcome string) {
	load()
	defer func() {
		if r := recover(); r != nil {
			switch e := r.(type) {
			case AssumeViolated:
				outcome = "assume-violated " + e.What
			case AssertFailed:
				outcome = "assert " + e.Label
			case FatalCalled:
				outcome = "fatal " + e.Msg
			default:
				outcome = "panic " + fmt.Sprint(r)
			}
		}
		fmt.Println("VERIF-OUTCOME " + outcome)
	}()
	fn()
	return "done"
}

func f64frombits(b uint64) float64 { return mathFloat64frombits(b) }

// RunReplayAll runs fn once per vector of the replay file ("vectors") or once for "vector".
func RunReplayAll(fn func()) bool {
	p := os.Getenv("VERIF_REPLAY")
	if p == "" {
		fmt.Println("VERIF-OUTCOME skipped (no VERIF_REPLAY)")
		return true
	}
	b, err := os.ReadFile(p)
	if err != nil {
		panic(err)
	}
	var r struct {
		Vector  []uint64       `json:"vector"`
		Vectors [][]uint64     `json:"vectors"`
		Params  map[string]int `json:"params"`
	}
	if err := json.Unmarshal(b, &r); err != nil {
		panic(err)
	}
	loaded = true
	params = r.Params
	if params == nil {
		params = map[string]int{}
	}
	vs := r.Vectors
	if len(vs) == 0 {
		vs = [][]uint64{r.Vector}
	}
	ok := true
	for _, v := range vs {
		vec, pos = v, 0
		if RunReplay(fn) != "done" {
			ok = false
		}
	}
	return ok
}

// conversions on symbolic data (the engine calls these instead of the built-in conversion)
func StringToRunes(s string) []rune {
	var out []rune
	for len(s) > 0 {
		r, n := DecodeRuneInString(s)
		out = append(out, r)
		s = s[n:]
	}
	return out
}
func RunesToString(rs []rune) string {
	var b []byte
	for _, r := range rs {
		b = utf8AppendRune(b, r)
	}
	return string(b)
}
func RuneToString(r rune) string { return string(utf8AppendRune(nil, r)) }

// DecodeRuneInString is a branch-structured equivalent of utf8.DecodeRuneInString (the std
// version is table driven and branch-free on the ASCII path, which gives the solver 256-way
// case splits).  The engine redirects utf8.DecodeRuneInString / DecodeRune here; the
// equivalence with the std functions is itself decided by the lemma_utf8 harness.
func DecodeRuneInString(s string) (rune, int) {
	n := len(s)
	if n < 1 {
		return 0xFFFD, 0
	}
	s0 := s[0]
	if s0 < 0x80 {
		return rune(s0), 1
	}
	if s0 < 0xC2 || s0 > 0xF4 {
		return 0xFFFD, 1
	}
	if s0 < 0xE0 {
		if n < 2 {
			return 0xFFFD, 1
		}
		s1 := s[1]
		if s1 < 0x80 || s1 > 0xBF {
			return 0xFFFD, 1
		}
		return rune(s0&0x1F)<<6 | rune(s1&0x3F), 2
	}
	if s0 < 0xF0 {
		if n < 3 {
			return 0xFFFD, 1
		}
		lo, hi := byte(0x80), byte(0xBF)
		if s0 == 0xE0 {
			lo = 0xA0
		}
		if s0 == 0xED {
			hi = 0x9F
		}
		s1, s2 := s[1], s[2]
		if s1 < lo || s1 > hi {
			return 0xFFFD, 1
		}
		if s2 < 0x80 || s2 > 0xBF {
			return 0xFFFD, 1
		}
		return rune(s0&0x0F)<<12 | rune(s1&0x3F)<<6 | rune(s2&0x3F), 3
	}
	if n < 4 {
		return 0xFFFD, 1
	}
	lo, hi := byte(0x80), byte(0xBF)
	if s0 == 0xF0 {
		lo = 0x90
	}
	if s0 == 0xF4 {
		hi = 0x8F
	}
	s1, s2, s3 := s[1], s[2], s[3]
	if s1 < lo || s1 > hi {
		return 0xFFFD, 1
	}
	if s2 < 0x80 || s2 > 0xBF {
		return 0xFFFD, 1
	}
	if s3 < 0x80 || s3 > 0xBF {
		return 0xFFFD, 1
	}
	return rune(s0&0x07)<<18 | rune(s1&0x3F)<<12 | rune(s2&0x3F)<<6 | rune(s3&0x3F), 4
}

func DecodeRune(p []byte) (rune, int) { return DecodeRuneInString(string(p)) }

// StdDecodeRuneInString calls the real function (never redirected: used by the lemma harness).
func StdDecodeRuneInString(s string) (rune, int) { return utf8DecodeRuneInString(s) }

// SortSlice replaces sort.Slice / sort.SliceStable under the engine (they use reflection):
// insertion sort, which is exactly what sort.Slice runs for n <= 12.
func SortSlice(x any, less func(i, j int) bool) {
	n := LenAny(x)
	for i := 1; i < n; i++ {
		for j := i; j > 0 && less(j, j-1); j-- {
			SwapAny(x, j, j-1)
		}
	}
}

// ErrorsAs is the reflection-free replacement of errors.As (AssignIfMatches is an engine intrinsic).
func ErrorsAs(err error, target any) bool {
	for i := 0; i < 16 && err != nil; i++ {
		if AssignIfMatches(err, target) {
			return true
		}
		if x, ok := err.(interface{ As(any) bool }); ok && x.As(target) {
			return true
		}
		switch x := err.(type) {
		case interface{ Unwrap() error }:
			err = x.Unwrap()
		case interface{ Unwrap() []error }:
			for _, e := range x.Unwrap() {
				if e != nil && ErrorsAs(e, target) {
					return true
				}
			}
			return false
		default:
			return false
		}
	}
	return false
}
