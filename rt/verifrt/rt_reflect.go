package verifrt

import "reflect"

// LenAny and SwapAny are engine intrinsics; natively they use reflection.
func LenAny(x any) int { return reflect.ValueOf(x).Len() }
func SwapAny(x any, i, j int) {
	reflect.Swapper(x)(i, j)
}
