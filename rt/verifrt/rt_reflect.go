package verifrt

import "reflect"

// LenAny and SwapAny are engine intrinsics; natively they use reflection.
func LenAny(x any) int { return reflect.ValueOf(x).Len() }
func SwapAny(x any, i, j int) {
	reflect.Swapper(x)(i, j)
}

// AssignIfMatches: if err's dynamic type is assignable to *target's element type, store it.
func AssignIfMatches(err error, target any) bool {
	val := reflect.ValueOf(target)
	if val.Kind() != reflect.Ptr || val.IsNil() {
		panic("errors: target must be a non-nil pointer")
	}
	tt := val.Type().Elem()
	if reflect.TypeOf(err).AssignableTo(tt) {
		val.Elem().Set(reflect.ValueOf(err))
		return true
	}
	return false
}
