package frac

import (
	"sync"

	"github.com/ozontech/seq-db/seq"
	rt "github.com/ozontech/seq-db/verifrt"
)

var vTokNames = []string{"a", "b", "c"}

type vMeta struct {
	md   MetaData
	toks []int // indexes into vTokNames
}

func vMkMeta(id seq.ID, nt int) vMeta {
	m := vMeta{md: MetaData{ID: id, Size: rt.NondetU32()}}
	rt.Assume(rt.And(m.md.Size >= 2, m.md.Size < 1<<16))
	mask := rt.Choose(1 << nt)
	for t := 0; t < nt; t++ {
		if mask&(1<<t) != 0 {
			m.toks = append(m.toks, t)
			m.md.Tokens = append(m.md.Tokens, MetaToken{Key: []byte("f"), Value: []byte(vTokNames[t])})
		}
	}
	return m
}

// vIndexBulk replays what appendWorker does with one decoded bulk: collect, drop the
// documents the fraction already holds, hand out LIDs.
func vIndexBulk(c *metaDataCollector, dp *DocsPositions, blockIndex uint32, bulk []vMeta) {
	c.Init(blockIndex)
	for _, m := range bulk {
		c.AppendMeta(m.md)
	}
	appended := dp.SetMultiple(c.IDs, c.Positions)
	if len(appended) != len(c.IDs) {
		c.Filter(appended)
	}
}

// VerifRedeliver: a second bulk that repeats an arbitrary subset of the first one (whole,
// partial, the same document several times, mixed with new documents) is indexed as if only its
// new documents had been sent.
func VerifRedeliver() {
	b := rt.Param("BULK")
	nt := rt.Param("TOKENS")
	first := make([]vMeta, b)
	for i := range first {
		id := seq.ID{MID: seq.MID(rt.NondetU64()), RID: seq.RID(rt.NondetU64())}
		for j := 0; j < i; j++ {
			rt.Assume(first[j].md.ID != id)
		}
		first[i] = vMkMeta(id, nt)
	}
	n2 := 1 + rt.Choose(b)
	second := make([]vMeta, n2)
	isNew := make([]bool, n2)
	for i := range second {
		k := rt.Choose(b + 1)
		if k < b { // repeat of first[k] (the proxy re-sends the same document: same ID, tokens and size)
			second[i] = first[k]
			for j := 0; j < i; j++ {
				if !isNew[j] && second[j].md.ID == first[k].md.ID {
					rt.Assume(false) // a bulk carries pairwise distinct IDs
				}
			}
		} else {
			id := seq.ID{MID: seq.MID(rt.NondetU64()), RID: seq.RID(rt.NondetU64())}
			for _, f := range first {
				rt.Assume(f.md.ID != id)
			}
			for j := 0; j < i; j++ {
				rt.Assume(second[j].md.ID != id)
			}
			second[i] = vMkMeta(id, nt)
			isNew[i] = true
		}
	}

	c := newMetaDataCollector()
	dp := NewSyncDocsPositions()
	vIndexBulk(c, dp, 0, first)
	rt.Assert(len(c.IDs) == b, "first bulk is indexed whole")
	vIndexBulk(c, dp, 1, second)
	rt.Reach("indexed")

	// reference: only the new documents, at their real offsets inside the second block
	var wantIdx []int
	off := uint64(0)
	offs := make([]uint64, n2)
	for i := range second {
		offs[i] = off
		off += uint64(second[i].md.Size) + 4
		if isNew[i] {
			wantIdx = append(wantIdx, i)
		}
	}
	rt.Assert(len(c.IDs) == len(wantIdx), "repeats are dropped at indexing, new documents kept")
	rt.Assert(int(c.DocsCounter) == len(wantIdx), "document count includes each document once")
	if len(c.IDs) == len(wantIdx) {
		minMID, maxMID := ^seq.MID(0), seq.MID(0)
		ti := 0
		for k, i := range wantIdx {
			m := second[i]
			rt.Assert(c.IDs[k] == m.md.ID, "kept ids are the new documents, in order")
			rt.Assert(c.Positions[k] == seq.PackDocPos(1, offs[i]), "position = real offset of the document in its block")
			rt.Assert(int(c.tokensInDocs[k]) == len(m.toks), "token count of the document")
			for _, t := range m.toks {
				if ti < len(c.tokensIndex) {
					tv := c.TokensValues[c.tokensIndex[ti]]
					rt.Assert(string(tv) == "f:"+vTokNames[t], "token of the document")
				}
				ti++
			}
			minMID = min(minMID, m.md.ID.MID)
			maxMID = max(maxMID, m.md.ID.MID)
		}
		rt.Assert(ti == len(c.tokensIndex), "no extra token entries")
		if len(wantIdx) > 0 {
			rt.Assert(rt.And(c.MinMID == minMID, c.MaxMID == maxMID), "time borders cover exactly the new documents")
		}
		// posting lists: every new document once under each of its tokens
		lids := make([]uint32, len(wantIdx))
		for k := range lids {
			lids[k] = uint32(100 + k)
		}
		groups := c.GroupLIDsByToken(lids)
		for g, grp := range groups {
			for k, i := range wantIdx {
				has := false
				for _, t := range second[i].toks {
					if string(c.TokensValues[g]) == "f:"+vTokNames[t] {
						has = true
					}
				}
				cnt := 0
				for _, l := range grp {
					if l == lids[k] {
						cnt++
					}
				}
				if has {
					rt.Assert(cnt == 1, "posting list holds the document once")
				} else {
					rt.Assert(cnt == 0, "posting list holds only documents with the token")
				}
			}
		}
	}
	// fetch positions: every document of both bulks resolves to the place of its first delivery
	for i, m := range first {
		_ = i
		rt.Assert(dp.Get(m.md.ID) != seq.DocPosNotFound, "first delivery stays fetchable")
	}
	rt.Reach("end")
}

// VerifConcurrentRedeliver: two deliveries of the same documents (a proxy retry racing the
// original, or the index workers replaying a fraction's meta blocks back to back) reach
// DocsPositions.SetMultiple concurrently, with a context switch explored before every lock
// operation: each document is accepted from exactly one of them and keeps that one's position.
func VerifConcurrentRedeliver() {
	for r := 0; r < rt.Repeat(); r++ {
		vConcurrentRedeliver()
	}
}

func vConcurrentRedeliver() {
	dp := NewSyncDocsPositions()
	ids := []seq.ID{{MID: 10, RID: 1}, {MID: 11, RID: 2}}
	pos := [][]seq.DocPos{
		{seq.PackDocPos(0, 0), seq.PackDocPos(0, 8)}, // first delivery: block 0
		{seq.PackDocPos(1, 0), seq.PackDocPos(1, 8)}, // the repeat: block 1
	}
	var wg sync.WaitGroup
	res := make([][]seq.ID, 2)
	for g := 0; g < 2; g++ {
		wg.Add(1)
		go func() {
			defer wg.Done()
			res[g] = dp.SetMultiple(ids, pos[g])
		}()
	}
	wg.Wait()
	for i, id := range ids {
		n, winner := 0, -1
		for g := 0; g < 2; g++ {
			for _, a := range res[g] {
				if a == id {
					n++
					winner = g
				}
			}
		}
		rt.Assert(n == 1, "a document delivered twice concurrently is accepted exactly once")
		if n == 1 {
			rt.Assert(dp.GetSync(id) == pos[winner][i], "the stored position is the accepted delivery's")
		}
	}
	rt.Reach("end")
}
