package frac

import (
	"context"
	"encoding/binary"
	"sync"

	"github.com/ozontech/seq-db/cache"
	"github.com/ozontech/seq-db/disk"
	"github.com/ozontech/seq-db/parser"
	"github.com/ozontech/seq-db/seq"
	rt "github.com/ozontech/seq-db/verifrt"
)

func vRRActive(docsF, metaF *vFile) *Active {
	ai := NewActiveIndexer(1, 8)
	ai.Start()
	limiter := disk.NewReadLimiter(1, nil)
	return &Active{
		Config:        &Config{},
		TokenList:     NewActiveTokenList(1),
		DocsPositions: NewSyncDocsPositions(),
		MIDs:          NewIDs(),
		RIDs:          NewIDs(),
		DocBlocks:     NewIDs(),
		docsReader:    disk.NewDocsReader(limiter, nil, cache.NewCache[[]byte](nil, nil)),
		metaReader:    disk.NewDocBlocksReader(limiter, nil),
		indexer:       ai,
		writer:        &ActiveWriter{docs: NewFileWriter(docsF, int64(len(docsF.data)), true), meta: NewFileWriter(metaF, int64(len(metaF.data)), true)},
		info:          &Info{Path: "frac", From: ^seq.MID(0), To: 0, BinaryDataVer: BinaryDataV1, DocsOnDisk: uint64(len(docsF.data)), MetaOnDisk: uint64(len(metaF.data))},
	}
}

func vRRDeliver(f *Active, ids []seq.ID) {
	var docsPayload, metasPayload []byte
	for _, id := range ids {
		body := []byte{byte(id.MID), '!'}
		docsPayload = binary.LittleEndian.AppendUint32(docsPayload, uint32(len(body)))
		docsPayload = append(docsPayload, body...)
		md := MetaData{ID: id, Size: uint32(len(body)), Tokens: []MetaToken{{Key: []byte(seq.TokenAll), Value: []byte{}}, {Key: []byte("f"), Value: []byte("a")}}}
		mb := md.MarshalBinaryTo(nil)
		metasPayload = binary.LittleEndian.AppendUint32(metasPayload, uint32(len(mb)))
		metasPayload = append(metasPayload, mb...)
	}
	c := GetDocsMetasCompressor(1, 1)
	c.CompressDocsAndMetas(docsPayload, metasPayload)
	d, m := c.DocsMetas()
	var wg sync.WaitGroup
	wg.Add(1)
	err := f.Append(append([]byte(nil), d...), append([]byte(nil), m...), &wg)
	rt.Assert(err == nil, "the bulk is written")
	wg.Wait()
	PutDocMetasCompressor(c)
}

func vRRCheck(f *Active, n int, when string) {
	f.MIDs.mu.Lock()
	lids := len(f.MIDs.vals)
	f.MIDs.mu.Unlock()
	rt.Assert(lids == n+1, when+": every document has one local id (plus the system slot)")
	rt.Assert(f.Info().DocsTotal == uint32(n), when+": the fraction counts every document once")
	all := f.TokenList.GetAllTokenLIDs().GetLIDs(f.MIDs, f.RIDs)
	rt.Assert(len(all) == n, when+": the all-documents posting list holds every document once")
}

// VerifReplayRepeat: a bulk and its partially overlapping repeat go through the real store path
// (Active.Append, ActiveIndexer and its append worker); every document is indexed once - and still
// once after a restart, when Active.Replay feeds all meta blocks, repeats included, to the same worker.
func VerifReplayRepeat() {
	docsF, metaF := &vFile{tearAt: -1}, &vFile{tearAt: -1}
	disk.VerifReadAt = docsF.readAt
	f := vRRActive(docsF, metaF)
	f.MIDs.Append(systemMID)
	f.RIDs.Append(systemRID)
	a, b, c := seq.ID{MID: 30, RID: 1}, seq.ID{MID: 20, RID: 2}, seq.ID{MID: 10, RID: 3}
	if rt.Choose(2) == 1 { // symbolic IDs as well
		a = seq.ID{MID: seq.MID(rt.NondetU8()) + 1, RID: 1}
		b = seq.ID{MID: seq.MID(rt.NondetU8()) + 1, RID: 2}
		c = seq.ID{MID: seq.MID(rt.NondetU8()) + 1, RID: 3}
	}
	vRRDeliver(f, []seq.ID{a, b})
	vRRDeliver(f, []seq.ID{a, b, c}) // the proxy retried the bulk, with one more document
	rt.Reach("delivered")
	vRRCheck(f, 3, "after the repeat")

	// restart: nothing but the two files survives
	disk.VerifReadAt = metaF.readAt
	g := vRRActive(docsF, metaF)
	g.MIDs.Append(systemMID)
	g.RIDs.Append(systemRID)
	err := g.Replay(context.Background())
	rt.Assert(err == nil, "replay succeeds")
	rt.Reach("replayed")
	vRRCheck(g, 3, "after the restart")
	rt.Reach("end")
}

// vRRDeliverTokens delivers one bulk of one document carrying the given tokens of field f.
func vRRDeliverTokens(f *Active, id seq.ID, toks []string) {
	body := []byte{byte(id.MID), '!'}
	docsPayload := binary.LittleEndian.AppendUint32(nil, uint32(len(body)))
	docsPayload = append(docsPayload, body...)
	md := MetaData{ID: id, Size: uint32(len(body)), Tokens: []MetaToken{{Key: []byte(seq.TokenAll), Value: []byte{}}}}
	for _, t := range toks {
		md.Tokens = append(md.Tokens, MetaToken{Key: []byte("f"), Value: []byte(t)})
	}
	mb := md.MarshalBinaryTo(nil)
	metasPayload := binary.LittleEndian.AppendUint32(nil, uint32(len(mb)))
	metasPayload = append(metasPayload, mb...)
	c := GetDocsMetasCompressor(1, 1)
	c.CompressDocsAndMetas(docsPayload, metasPayload)
	d, m := c.DocsMetas()
	var wg sync.WaitGroup
	wg.Add(1)
	err := f.Append(append([]byte(nil), d...), append([]byte(nil), m...), &wg)
	rt.Assert(err == nil, "the bulk is written")
	wg.Wait()
	PutDocMetasCompressor(c)
}

// VerifCollectorShrink: the append worker's collector re-sizes its buffers by the recent bulk
// sizes (ReallocSolver, window scaled to 2 bulks): after a bulk with many tokens followed by small
// ones - across the shrink - every document is still indexed under `_all_` and under its own
// token, before and after a restart.
func VerifCollectorShrink() {
	docsF, metaF := &vFile{tearAt: -1}, &vFile{tearAt: -1}
	disk.VerifReadAt = docsF.readAt
	f := vRRActive(docsF, metaF)
	f.MIDs.Append(systemMID)
	f.RIDs.Append(systemRID)
	n := 0
	vRRDeliverTokens(f, seq.ID{MID: 100, RID: 1}, []string{"t0", "t1", "t2", "t3", "t4", "t5", "t6", "t7"})
	n++
	small := rt.Param("SMALL")
	for i := 0; i < small; i++ {
		vRRDeliverTokens(f, seq.ID{MID: seq.MID(90 - i), RID: seq.RID(2 + i)}, []string{"t0"})
		n++
		vRRCheck(f, n, "after a small bulk")
		tids, ferr := f.TokenList.FindPattern(context.Background(), &parser.Literal{Field: "f", Terms: []parser.Term{{Kind: parser.TermText, Data: "t0"}}}, nil)
		rt.Assert(ferr == nil && len(tids) == 1, "the token is in the dictionary once")
		if ferr == nil && len(tids) == 1 {
			t0 := f.TokenList.Provide(tids[0]).GetLIDs(f.MIDs, f.RIDs)
			rt.Assert(len(t0) == n, "every document is indexed under the token it carries")
		}
	}
	rt.Reach("delivered")
	disk.VerifReadAt = metaF.readAt
	g := vRRActive(docsF, metaF)
	g.MIDs.Append(systemMID)
	g.RIDs.Append(systemRID)
	err := g.Replay(context.Background())
	rt.Assert(err == nil, "replay succeeds")
	vRRCheck(g, n, "after the restart")
	rt.Reach("end")
}
