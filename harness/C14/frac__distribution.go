package frac

import (
	"github.com/ozontech/seq-db/seq"
	rt "github.com/ozontech/seq-db/verifrt"
)

const vEpoch = 1_700_000_000_000 // ms; all instants lie within 2^WBITS ms after it (documents within 2^DOCWBITS, the creation time within CBASE + 2^CWBITS)

// vInstant: an arbitrary instant in [vEpoch+base, vEpoch+base+2^wbits).
func vInstant(base uint64, wbits int) uint64 {
	x := rt.NondetU32()
	rt.Assume(x < uint32(1)<<uint(wbits))
	return vEpoch + base + uint64(x)
}

// vInstantSliced is vInstant with the window cut into 2^SLICEBITS explicit slices (one Choose
// each): the same set of instants, explored as independent jobs.
func vInstantSliced(base uint64, wbits int) uint64 {
	x := rt.NondetU32()
	w, sb := uint(wbits), uint(rt.Param("SLICEBITS"))
	rt.Assume(x < uint32(1)<<w)
	if sb > 0 {
		j := rt.Choose(1 << sb)
		rt.Assume(x>>(w-sb) == uint32(j))
	}
	return vEpoch + base + uint64(x)
}

// VerifDistribution: the minute-level occupancy map never hides a document: if a document of
// the fraction lies inside the requested range, the fraction is reported as intersecting - for
// documents far before the fraction's creation, on bucket borders, before/after the map's span.
func VerifDistribution() {
	n := rt.Param("DOCS")
	info := &Info{Path: "f", From: ^seq.MID(0), To: 0}
	ids := make([]seq.ID, n)
	for i := range ids {
		ids[i] = seq.ID{MID: seq.MID(vInstantSliced(0, rt.Param("DOCWBITS"))), RID: seq.RID(i)}
		info.From = min(info.From, ids[i].MID)
		info.To = max(info.To, ids[i].MID)
	}
	info.DocsTotal = uint32(n)
	info.CreationTime = vInstantSliced(uint64(rt.Param("CBASE")), rt.Param("CWBITS"))
	info.BuildDistribution(ids)
	rt.Reach("built")
	if info.Distribution != nil {
		rt.Reach("with-map")
		if rt.Param("PERSIST") == 1 {
			// the map as it is restored from the persisted fraction info (info block / .frac-cache)
			seq.VerifResetDistStore()
			raw, err := info.Distribution.MarshalJSON()
			rt.Assert(err == nil, "the map is persisted")
			restored := &seq.MIDsDistribution{}
			rt.Assert(restored.UnmarshalJSON(raw) == nil, "the map is restored")
			info.Distribution = restored
			rt.Reach("restored")
		}
	}
	from, to := seq.MID(vInstant(0, rt.Param("WBITS"))), seq.MID(vInstant(0, rt.Param("WBITS")))
	hit := false
	for _, id := range ids {
		hit = rt.Or(hit, rt.And(from <= id.MID, id.MID <= to))
	}
	got := info.IsIntersecting(from, to)
	rt.Assert(rt.Implies(hit, got), "a fraction holding a document inside [from,to] is not pruned")
	rt.Reach("end")
}
