package util

import rt "github.com/ozontech/seq-db/verifrt"

// VerifBitmask: HasBitsIn(l,r) == exists i in [l,r]: Get(i), for all contents and all 0<=l<=r<size;
// Set/Get agree; LoadBitmask(GetBitmaskBinary) preserves every bit.
func VerifBitmask() {
	size := rt.Choose(rt.Param("MAXBITS")) + 1
	b := NewBitmask(size)
	for i := range b.bin {
		b.bin[i] = rt.NondetU8()
	}
	l := rt.NondetInt()
	r := rt.NondetInt()
	rt.Assume(rt.And(rt.And(0 <= l, l <= r), r < size))
	got := b.HasBitsIn(l, r)
	want := false
	for i := 0; i < size; i++ {
		want = rt.Or(want, rt.And(rt.And(l <= i, i <= r), b.Get(i)))
	}
	rt.Reach("hasbits")
	rt.Assert(got == want, "HasBitsIn==exists")

	// round trip through the persisted form
	c := LoadBitmask(size, b.GetBitmaskBinary())
	p := rt.NondetInt()
	rt.Assume(rt.And(0 <= p, p < size))
	rt.Assert(c.Get(p) == b.Get(p), "LoadBitmask preserves bits")
	rt.Assert(c.HasBitsIn(l, r) == got, "LoadBitmask preserves HasBitsIn")

	// Set then Get
	v := rt.NondetBool()
	q := rt.NondetInt()
	rt.Assume(rt.And(0 <= q, q < size))
	before := c.Get(q)
	c.Set(p, v)
	rt.Assert(c.Get(p) == v, "Get after Set")
	rt.Assert(rt.Or(p == q, c.Get(q) == before), "Set leaves other bits")
	rt.Reach("end")
}
