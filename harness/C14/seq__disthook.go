package seq

// The JSON library is replaced by an identity store: the persisted form is the struct itself.
var vDistStore []midsDistributionJSON

func vDistMarshal(_ func(any) ([]byte, error), d midsDistributionJSON) ([]byte, error) {
	d.Bitmask = append([]byte(nil), d.Bitmask...)
	vDistStore = append(vDistStore, d)
	return []byte{'D', byte(len(vDistStore) - 1)}, nil
}

func vDistUnmarshal(_ func([]byte, any) error, data []byte, dst *midsDistributionJSON) error {
	*dst = vDistStore[data[1]]
	return nil
}

// VerifResetDistStore: harness state is process-global.
func VerifResetDistStore() { vDistStore = nil }
