package bulk

import (
	"github.com/ozontech/seq-db/frac"
	"github.com/ozontech/seq-db/seq"
	"github.com/ozontech/seq-db/tokenizer"
	rt "github.com/ozontech/seq-db/verifrt"
)

// VerifMultiType: a field mapped to several types (keyword + path under its own title, each with
// its own size limit) is indexed, type by type, exactly as a field mapped to that single type with
// that limit - which is what the query side assumes when it looks the sub-field's title up in the
// mapping.
func VerifMultiType() {
	tokenizers := map[seq.TokenizerType]tokenizer.Tokenizer{
		seq.TokenizerTypeKeyword: tokenizer.NewKeywordTokenizer(3, false, false),
		seq.TokenizerTypePath:    tokenizer.NewPathTokenizer(3, false, false),
	}
	sizes := [3]int{0, 1, 2} // 0: the tokenizer's default limit (3)
	mainSize, subSize := sizes[rt.Choose(3)], sizes[rt.Choose(3)]
	types := seq.MappingTypes{
		Main: seq.MappingType{TokenizerType: seq.TokenizerTypeKeyword, MaxSize: mainSize},
		All: []seq.MappingType{
			{TokenizerType: seq.TokenizerTypeKeyword, MaxSize: mainSize},
			{Title: "f.path", TokenizerType: seq.TokenizerTypePath, MaxSize: subSize},
		},
	}
	n := 1 + rt.Choose(rt.Param("BYTES"))
	v := make([]byte, n)
	w := make([]byte, n)
	for i := range v {
		v[i] = rt.NondetU8()
		rt.Assume(v[i] < 0x80) // ASCII values: what differs here is the limit, not the bytes
		w[i] = v[i]
	}
	in := &indexer{tokenizers: tokenizers, mapping: seq.Mapping{"f": types}}
	got := in.index(types, nil, []byte("f"), v)
	rt.Reach("indexed")

	var want []frac.MetaToken
	want = tokenizers[seq.TokenizerTypeKeyword].Tokenize(want, []byte("f"), append([]byte(nil), w...), mainSize)
	want = append(want, frac.MetaToken{Key: seq.ExistsTokenName, Value: []byte("f")})
	want = tokenizers[seq.TokenizerTypePath].Tokenize(want, []byte("f.path"), append([]byte(nil), w...), subSize)
	want = append(want, frac.MetaToken{Key: seq.ExistsTokenName, Value: []byte("f.path")})

	rt.Assert(len(got) == len(want), "as many tokens as the types indexed one by one")
	if len(got) == len(want) {
		for i := range got {
			rt.Assert(string(got[i].Key) == string(want[i].Key), "token field as for the single type")
			same := len(got[i].Value) == len(want[i].Value)
			if same {
				for j := range got[i].Value {
					same = rt.And(same, got[i].Value[j] == want[i].Value[j])
				}
			}
			rt.Assert(same, "token value as for the single type with its own size limit")
		}
	}
	rt.Reach("end")
}
