package parser

// Exported wrappers for the differential harness in package tokenizer (query side of C11).
func VerifKeywordTerms(value string, caseSensitive bool) ([]Term, error) {
	return parseSeqQLKeyword(value, caseSensitive)
}

func VerifTextTokens(field, value string, caseSensitive bool) ([]Token, error) {
	return parseSeqQLText(field, value, caseSensitive)
}
