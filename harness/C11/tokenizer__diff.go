package tokenizer

import (
	"context"
	"unicode/utf8"

	"github.com/ozontech/seq-db/frac"
	"github.com/ozontech/seq-db/parser"
	"github.com/ozontech/seq-db/pattern"
	rt "github.com/ozontech/seq-db/verifrt"
)

type vOneToken struct{ tok []byte }

func (p vOneToken) GetToken(uint32) []byte { return p.tok }
func (p vOneToken) FirstTID() uint32       { return 1 }
func (p vOneToken) LastTID() uint32        { return 1 }
func (p vOneToken) Ordered() bool          { return false }

// vFinds: does the query literal built from `terms` select the stored token?
func vFinds(terms []parser.Term, tok []byte) bool {
	tids, err := pattern.Search(context.Background(), &parser.Literal{Field: "f", Terms: terms}, vOneToken{tok})
	return err == nil && len(tids) == 1
}

// vTag names the input class in the assertion label, so that findings are told apart.
func vTag(label string, orig []byte, cs bool) string {
	valid, wild := true, false
	for i := 0; i < len(orig); {
		r, n := rt.DecodeRuneInString(string(orig[i:]))
		if r == utf8.RuneError && n == 1 {
			valid = false
		}
		if r == 0xE000 {
			wild = true
		}
		i += n
	}
	if !valid {
		label += " | value is not valid UTF-8"
	}
	if wild {
		label += " | value contains U+E000 (the query parser's wildcard rune)"
	}
	if cs {
		label += " | case-sensitive indexing"
	}
	return label
}

func vValue() ([]byte, []byte) {
	n := rt.Choose(rt.Param("BYTES") + 1)
	v := rt.NondetBytes(n)
	if n > 0 && rt.Param("ASCII") == 0 {
		// case split on the class of the first byte (the union is every byte value): more parallel jobs
		switch rt.Choose(5) {
		case 0:
			rt.Assume(v[0] < 0x80)
		case 1:
			rt.Assume(rt.And(v[0] >= 0x80, v[0] < 0xC2))
		case 2:
			rt.Assume(rt.And(v[0] >= 0xC2, v[0] < 0xE0))
		case 3:
			rt.Assume(rt.And(v[0] >= 0xE0, v[0] < 0xF0))
		default:
			rt.Assume(v[0] >= 0xF0)
		}
	}
	if rt.Param("ASCII") == 1 {
		for _, b := range v {
			rt.Assume(b < 0x80)
		}
	}
	// optional concrete continuation of the value: what is tokenized after the symbolic part
	switch rt.Param("TAIL") {
	case 1:
		v = append(v, " zz"...)
	case 2:
		v = append(v, "/zz"...)
	}
	return v, append([]byte(nil), v...) // the tokenizers lower-case in place: keep the original
}

// VerifKeyword: the token the indexer stores for a keyword value is found by the query made
// from the value itself.
func VerifKeyword() {
	v, orig := vValue()
	cs := rt.Choose(2) == 1
	toks := NewKeywordTokenizer(rt.Param("MAXTOKEN"), cs, false).Tokenize(nil, []byte("f"), v, 0)
	rt.Reach("tokenized")
	if len(orig) > rt.Param("MAXTOKEN") {
		rt.Assert(len(toks) == 0, "over-size keyword value is skipped when partial indexing is off")
		return
	}
	rt.Assert(len(toks) == 1, "keyword value within the limit is indexed as one token")
	if len(toks) != 1 {
		return
	}
	terms, err := parser.VerifKeywordTerms(string(orig), cs)
	rt.Assert(err == nil, "the value parses as a keyword filter")
	if err == nil {
		rt.Assert(vFinds(terms, toks[0].Value), vTag("the query made from the value finds the indexed token", orig, cs))
	}
	rt.Reach("end")
}

// VerifText: the words the indexer stores for a text value are exactly the words the query
// side makes of the same value (so any single word of the field finds the document).
func VerifText() {
	v, orig := vValue()
	cs := rt.Choose(2) == 1
	maxTok := rt.Param("MAXTOKEN")
	toks := NewTextTokenizer(maxTok, cs, false, 1<<10).Tokenize(nil, []byte("f"), v, 0)
	rt.Reach("tokenized")
	// U+E000 is the query parser's internal wildcard marker: in a query it joins the words around
	// it into one wildcard pattern by design, so the whole-value differential does not apply
	for i := 0; i+2 < len(orig); i++ {
		rt.Assume(rt.Not(rt.And(orig[i] == 0xEE, rt.And(orig[i+1] == 0x80, orig[i+2] == 0x80))))
	}
	qs, err := parser.VerifTextTokens("f", string(orig), cs)
	rt.Assert(err == nil, "the value parses as a text filter")
	if err != nil {
		return
	}
	// query words (an empty value / a value without words gives the single empty term)
	var words []string
	for _, q := range qs {
		lit := q.(*parser.Literal)
		rt.Assert(len(lit.Terms) == 1, vTag("a raw word is one term", orig, cs))
		words = append(words, lit.Terms[0].Data)
	}
	// every indexed token is one of the query words
	for _, t := range toks {
		found := false
		for _, w := range words {
			found = rt.Or(found, string(t.Value) == w)
		}
		rt.Assert(found, vTag("every indexed word is a word the query side produces from the same value", orig, cs))
	}
	// every query word within the token size limit is indexed
	for _, w := range words {
		if len(w) > maxTok || (len(w) == 0 && len(orig) != 0) {
			continue
		}
		found := false
		for _, t := range toks {
			found = rt.Or(found, string(t.Value) == w)
		}
		rt.Assert(found, vTag("every word of the value (within the size limit) is indexed", orig, cs))
	}
	rt.Reach("end")
}

// VerifPath: every leading path the indexer stores is found by the query made from that
// leading part of the value.
func VerifPath() {
	v, orig := vValue()
	cs := rt.Choose(2) == 1
	toks := NewPathTokenizer(rt.Param("MAXTOKEN"), cs, false).Tokenize(nil, []byte("f"), v, 0)
	rt.Reach("tokenized")
	if len(orig) > rt.Param("MAXTOKEN") {
		rt.Assert(len(toks) == 0, "over-size path value is skipped when partial indexing is off")
		return
	}
	// leading parts: cut before every separator that is not the first byte, plus the whole value
	var cuts []int
	for i := 1; i < len(orig); i++ {
		if orig[i] == '/' {
			cuts = append(cuts, i)
		}
	}
	cuts = append(cuts, len(orig))
	rt.Assert(len(toks) == len(cuts), "one token per leading path")
	if len(toks) != len(cuts) {
		return
	}
	for i, c := range cuts {
		terms, err := parser.VerifKeywordTerms(string(orig[:c]), cs)
		rt.Assert(err == nil, "the leading path parses as a filter")
		if err == nil {
			rt.Assert(vFinds(terms, toks[i].Value), vTag("the query made from a leading path finds its token", orig, cs))
		}
	}
	rt.Reach("end")
}

var _ frac.MetaToken
