package pattern

import (
	"context"
	"math"

	"github.com/ozontech/seq-db/parser"
	rt "github.com/ozontech/seq-db/verifrt"
)

// strconv.ParseFloat is replaced by an arbitrary function of its argument: three strings are
// parsed (range start, range end, token); equal strings get equal answers.
type vParsed struct {
	s  string
	f  float64
	ok bool
}

var vPF []*vParsed

type vNumErr struct{}

func (vNumErr) Error() string { return "not a number" }

func vParseFloat(s string, _ int) (float64, error) {
	for _, p := range vPF {
		if p.s == s {
			if p.ok {
				return p.f, nil
			}
			return 0, vNumErr{}
		}
	}
	p := &vParsed{s: s, f: rt.NondetF64(), ok: rt.NondetBool()}
	vPF = append(vPF, p)
	if p.ok {
		return p.f, nil
	}
	return 0, vNumErr{}
}

// VerifNumberRange: when every given end of a range is a number the tokens are compared as
// numbers (a token that is not a number never matches); open, closed and unbounded ends.
func VerifNumberRange() {
	vPF = nil
	r := &parser.Range{Field: "f", IncludeFrom: rt.NondetBool(), IncludeTo: rt.NondetBool()}
	fromUnb, toUnb := rt.Choose(2) == 1, rt.Choose(2) == 1
	from, to := rt.NondetString(1+rt.Choose(2)), rt.NondetString(1+rt.Choose(2))
	if fromUnb {
		r.From = parser.Term{Kind: parser.TermSymbol, Data: "*"}
	} else {
		r.From = parser.Term{Kind: parser.TermText, Data: from}
	}
	if toUnb {
		r.To = parser.Term{Kind: parser.TermSymbol, Data: "*"}
	} else {
		r.To = parser.Term{Kind: parser.TermText, Data: to}
	}
	tok := rt.NondetBytes(1 + rt.Choose(2))
	tids, err := Search(context.Background(), r, &vProvider{tokens: [][]byte{tok}})
	rt.Assert(err == nil, "no error")
	rt.Reach("searched")

	// reference
	num := func(s string) (float64, bool) { // what the parser says, finite numbers only
		for _, p := range vPF {
			if p.s == s {
				return p.f, rt.And(p.ok, rt.And(!math.IsNaN(p.f), !math.IsInf(p.f, 0)))
			}
		}
		return 0, false
	}
	fv, fok := num(from)
	tv, tok2 := num(to)
	numeric := rt.And(rt.Or(fromUnb, fok), rt.Or(toUnb, tok2))
	var want bool
	if numeric {
		v, vok := num(string(tok))
		lo := rt.Or(fromUnb, rt.Or(fv < v, rt.And(r.IncludeFrom, fv == v)))
		hi := rt.Or(toUnb, rt.Or(v < tv, rt.And(r.IncludeTo, v == tv)))
		want = rt.And(vok, rt.And(lo, hi))
		rt.Reach("numeric")
	} else {
		s := string(tok)
		lo := rt.Or(fromUnb, rt.Or(from < s, rt.And(r.IncludeFrom, from == s)))
		hi := rt.Or(toUnb, rt.Or(s < to, rt.And(r.IncludeTo, to == s)))
		want = rt.And(lo, hi)
		rt.Reach("textual")
	}
	rt.Assert((len(tids) == 1) == want, "token selected iff inside the interval under the documented comparison")
	rt.Reach("end")
}
