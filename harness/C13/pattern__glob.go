package pattern

import (
	"context"

	"github.com/ozontech/seq-db/parser"
	rt "github.com/ozontech/seq-db/verifrt"
)

type vProvider struct {
	tokens  [][]byte // tid = index+1
	ordered bool
}

func (p *vProvider) GetToken(tid uint32) []byte { return p.tokens[tid-1] }
func (p *vProvider) FirstTID() uint32           { return 1 }
func (p *vProvider) LastTID() uint32            { return uint32(len(p.tokens)) }
func (p *vProvider) Ordered() bool              { return p.ordered }

// vGlob: reference glob semantics, branch-free in the byte values.
func vGlob(terms []parser.Term, s []byte) bool {
	if len(terms) == 0 {
		return len(s) == 0
	}
	t := terms[0]
	if t.Kind == parser.TermSymbol { // '*'
		r := false
		for k := 0; k <= len(s); k++ {
			r = rt.Or(r, vGlob(terms[1:], s[k:]))
		}
		return r
	}
	if len(s) < len(t.Data) {
		return false
	}
	eq := true
	for i := 0; i < len(t.Data); i++ {
		eq = rt.And(eq, t.Data[i] == s[i])
	}
	return rt.And(eq, vGlob(terms[1:], s[len(t.Data):]))
}

// vPattern builds a pattern of up to TERMS terms; each term is '*' or a text fragment of
// 1..FRAG symbolic bytes; two text fragments are never adjacent (the parser joins them).
func vPattern() *parser.Literal {
	n := 1 + rt.Choose(rt.Param("TERMS"))
	lit := &parser.Literal{Field: "f"}
	prevText := false
	for i := 0; i < n; i++ {
		k := rt.Choose(rt.Param("FRAG") + 1) // 0 = wildcard, else text of k bytes
		if k == 0 {
			lit.Terms = append(lit.Terms, parser.Term{Kind: parser.TermSymbol, Data: "*"})
			prevText = false
			continue
		}
		if prevText {
			rt.Assume(false)
		}
		lit.Terms = append(lit.Terms, parser.Term{Kind: parser.TermText, Data: rt.NondetString(k)})
		prevText = true
	}
	return lit
}

// VerifGlob: Search over an unordered provider returns a token iff it matches the pattern as a glob.
func VerifGlob() {
	lit := vPattern()
	tok := rt.NondetBytes(rt.Choose(rt.Param("TOKEN") + 1))
	tp := &vProvider{tokens: [][]byte{tok}}
	tids, err := Search(context.Background(), lit, tp)
	rt.Assert(err == nil, "no error")
	rt.Reach("searched")
	want := vGlob(lit.Terms, tok)
	rt.Assert((len(tids) == 1) == want, "matches iff glob matches")
	rt.Reach("end")
}

func vLess(a, b []byte) bool { return string(a) < string(b) }

// VerifNarrow: over a sorted dictionary, prefix narrowing returns the same token set as
// evaluating the glob on every token.
func VerifNarrow() {
	lit := vPattern()
	d := rt.Param("DICT")
	tp := &vProvider{ordered: true}
	for i := 0; i < d; i++ {
		t := rt.NondetBytes(rt.Choose(rt.Param("TOKEN") + 1))
		if i > 0 {
			rt.Assume(vLess(tp.tokens[i-1], t)) // sorted, distinct
		}
		tp.tokens = append(tp.tokens, t)
	}
	tids, err := Search(context.Background(), lit, tp)
	rt.Assert(err == nil, "no error")
	rt.Reach("searched")
	// reference: scan
	k := 0
	for i := 0; i < d; i++ {
		if vGlob(lit.Terms, tp.tokens[i]) {
			rt.Assert(rt.And(k < len(tids), k < len(tids) && tids[k] == uint32(i+1)), "narrowed search finds every matching token, in order")
			k++
		}
	}
	rt.Assert(k == len(tids), "narrowed search returns no extra token")
	rt.Reach("end")
}

// VerifTextRange: a text range filter matches exactly the tokens inside the interval.
func VerifTextRange() {
	r := &parser.Range{Field: "f", IncludeFrom: rt.NondetBool(), IncludeTo: rt.NondetBool()}
	fromUnbounded, toUnbounded := rt.NondetBool(), rt.NondetBool()
	from := rt.NondetString(rt.Choose(rt.Param("TOKEN") + 1))
	to := rt.NondetString(rt.Choose(rt.Param("TOKEN") + 1))
	// ends are not numbers (otherwise the number search is used): force a leading non-numeric byte
	if len(from) > 0 {
		rt.Assume(from[0] == 'x')
	}
	if len(to) > 0 {
		rt.Assume(to[0] == 'x')
	}
	if fromUnbounded {
		r.From = parser.Term{Kind: parser.TermSymbol, Data: "*"}
	} else {
		r.From = parser.Term{Kind: parser.TermText, Data: from}
	}
	if toUnbounded {
		r.To = parser.Term{Kind: parser.TermSymbol, Data: "*"}
	} else {
		r.To = parser.Term{Kind: parser.TermText, Data: to}
	}
	if fromUnbounded && toUnbounded {
		rt.Assume(false) // both unbounded is a number range by construction (covered there)
	}
	if (fromUnbounded || len(from) == 0) && (toUnbounded || len(to) == 0) {
		rt.Assume(false)
	}
	tok := rt.NondetBytes(rt.Choose(rt.Param("TOKEN") + 1))
	tp := &vProvider{tokens: [][]byte{tok}}
	tids, err := Search(context.Background(), r, tp)
	rt.Assert(err == nil, "no error")
	rt.Reach("searched")
	s := string(tok)
	lo := rt.Or(fromUnbounded, rt.Or(from < s, rt.And(r.IncludeFrom, from == s)))
	hi := rt.Or(toUnbounded, rt.Or(s < to, rt.And(r.IncludeTo, to == s)))
	rt.Assert((len(tids) == 1) == rt.And(lo, hi), "in range iff inside the interval")
	rt.Reach("end")
}
