package token

import (
	"strings"

	rt "github.com/ozontech/seq-db/verifrt"
)

// VerifSelectEntries: block pre-selection by the query's leading text never drops a block that
// holds a token with that prefix - for every sorted dictionary, every way of cutting it into
// blocks and every hint.
func VerifSelectEntries() {
	n := rt.Param("DICT")
	maxLen := rt.Param("TOKEN")
	toks := make([]string, n)
	for i := range toks {
		toks[i] = string(rt.NondetBytes(1 + rt.Choose(maxLen)))
		if i > 0 {
			rt.Assume(toks[i-1] < toks[i]) // the dictionary of a field is sorted and has no duplicates
		}
	}
	// cut into blocks: token i starts a new block or continues the previous one
	var entries []*TableEntry
	blockOf := make([]int, n)
	for i := range toks {
		if i == 0 || rt.Choose(2) == 1 {
			entries = append(entries, &TableEntry{StartTID: uint32(i + 1), BlockIndex: uint32(len(entries)), MinVal: toks[i]})
		}
		e := entries[len(entries)-1]
		e.ValCount++
		e.MaxVal = toks[i]
		blockOf[i] = len(entries) - 1
	}
	table := Table{"f": &FieldData{MinVal: toks[0], Entries: entries}}
	hint := string(rt.NondetBytes(rt.Choose(maxLen + 1)))
	got := table.SelectEntries("f", hint)
	rt.Reach("selected")
	for i, t := range toks {
		if strings.HasPrefix(t, hint) {
			found := false
			for _, e := range got {
				if e == entries[blockOf[i]] {
					found = true
				}
			}
			rt.Assert(found, "the block of a token that starts with the hint is selected")
		}
	}
	// the selection is a contiguous run of the field's blocks, in order
	for k := 1; k < len(got); k++ {
		rt.Assert(got[k].BlockIndex == got[k-1].BlockIndex+1, "selected blocks are consecutive")
	}
	rt.Assert(len(table.SelectEntries("g", hint)) == 0, "unknown field: nothing selected")
	rt.Reach("end")
}
