package fracmanager

import (
	"context"
	"io/fs"
	"runtime"
	"sort"
	"strings"
	"sync"
	"time"

	"github.com/ozontech/seq-db/frac"
	"github.com/ozontech/seq-db/frac/processor"
	"github.com/ozontech/seq-db/parser"
	"github.com/ozontech/seq-db/seq"
	rt "github.com/ozontech/seq-db/verifrt"
)

// ---- file system of the async searcher: names -> contents, with a crash index ---------------

type vAFS struct {
	files     map[string][]byte
	ops       int
	crashAt   int
	afterGlob func() // one-shot: runs after a directory listing was taken, before it is returned
}
type vACrash struct{}

var vFS *vAFS

func (v *vAFS) mut() {
	v.ops++
	if v.ops == v.crashAt {
		panic(vACrash{})
	}
}

type vAFile struct {
	name string
	fs   *vAFS
}

func (v *vAFS) Create(name string) (*vAFile, error) {
	v.mut()
	v.files[name] = []byte{}
	return &vAFile{name: name, fs: v}, nil
}
func (f *vAFile) Write(b []byte) (int, error) {
	f.fs.mut()
	f.fs.files[f.name] = append(f.fs.files[f.name], b...)
	return len(b), nil
}
func (f *vAFile) Sync() error  { return nil }
func (f *vAFile) Close() error { return nil }
func (v *vAFS) Rename(a, b string) error {
	c, ok := v.files[a]
	if !ok {
		return fs.ErrNotExist
	}
	v.mut()
	delete(v.files, a)
	v.files[b] = c
	return nil
}
func (v *vAFS) ReadFile(name string) ([]byte, error) {
	c, ok := v.files[name]
	if !ok {
		return nil, fs.ErrNotExist
	}
	return c, nil
}

// Glob supports the two patterns the searcher uses: <prefix>*<suffix> in the data directory.
func (v *vAFS) Glob(pattern string) ([]string, error) {
	i := strings.IndexByte(pattern, '*')
	pre, suf := pattern[:i], pattern[i+1:]
	var out []string
	for n := range v.files {
		if len(n) >= len(pre)+len(suf) && strings.HasPrefix(n, pre) && strings.HasSuffix(n, suf) {
			out = append(out, n)
		}
	}
	sort.Strings(out)
	if f := v.afterGlob; f != nil {
		v.afterGlob = nil
		f() // time passes between taking the listing and using it
	}
	return out, nil
}

func vAbs(p string) (string, error)          { return p, nil }
func vNoSync(string)                        {}
func vMkdirAll(string) error                { return nil }
func vCompress(src, dst []byte, _ int) []byte { return append(dst[:0], src...) }
func vDecompress(src []byte) ([]byte, error) { return src, nil }

// ---- JSON/zstd are replaced by an identity store: the encoded form is a handle --------------

var (
	vQPRs    []*seq.QPR
	vQPRAggs [][][]byte // per stored QPR: its aggregations as AggregatableSamples.MarshalJSON encodes them
	vInfos   []asyncSearchInfo
)

func vMarshalQPR(q *seq.QPR) ([]byte, error) {
	var raws [][]byte
	for i := range q.Aggs {
		raw, err := q.Aggs[i].MarshalJSON()
		if err != nil {
			return nil, err
		}
		raws = append(raws, raw)
	}
	vQPRAggs = append(vQPRAggs, raws)
	vQPRs = append(vQPRs, q)
	return []byte{'Q', byte(len(vQPRs) - 1)}, nil
}
func vUnmarshalQPR(b []byte, dst *seq.QPR) error {
	// as json.Unmarshal fills an existing value: scalars and slices are replaced, a map that already
	// exists is kept and keys are added or overwritten (never removed), elements with their own
	// UnmarshalJSON decode themselves
	src := vQPRs[b[1]]
	dst.IDs = append(dst.IDs[:0], src.IDs...)
	dst.Total = src.Total
	dst.Errors = src.Errors
	if src.Histogram != nil {
		if dst.Histogram == nil {
			dst.Histogram = map[seq.MID]uint64{}
		}
		for k, v := range src.Histogram {
			dst.Histogram[k] = v
		}
	}
	dst.Aggs = dst.Aggs[:0]
	for _, raw := range vQPRAggs[b[1]] {
		var a seq.AggregatableSamples
		if err := a.UnmarshalJSON(raw); err != nil {
			return err
		}
		dst.Aggs = append(dst.Aggs, a)
	}
	return nil
}
func vMarshalInfo(i asyncSearchInfo) ([]byte, error) {
	vInfos = append(vInfos, i)
	return []byte{'I', byte(len(vInfos) - 1)}, nil
}
func vUnmarshalInfo(b []byte, dst *asyncSearchInfo) error {
	*dst = vInfos[b[1]]
	return nil
}

// ---- fractions answering by the single-fraction contract, with histogram --------------------

type vAFrac struct {
	info *frac.Info
	ids  []seq.ID // descending
	grp  []string // group token of each document (for the aggregations)
}

func (f *vAFrac) Info() *frac.Info                     { return f.info }
func (f *vAFrac) IsIntersecting(from, to seq.MID) bool { return f.info.IsIntersecting(from, to) }
func (f *vAFrac) Contains(mid seq.MID) bool            { return f.info.From <= mid && mid <= f.info.To }
func (f *vAFrac) DataProvider(context.Context) (frac.DataProvider, func()) {
	return f, func() {}
}
func (f *vAFrac) Suicide()                         {}
func (f *vAFrac) Fetch([]seq.ID) ([][]byte, error) { panic("unused") }
func (f *vAFrac) Search(p processor.SearchParams) (*seq.QPR, error) {
	vASTs = append(vASTs, p.AST.String())
	q := &seq.QPR{}
	if p.HistInterval > 0 {
		q.Histogram = map[seq.MID]uint64{}
	}
	n := len(f.ids)
	total := 0
	for k := 0; k < n; k++ {
		id := f.ids[k]
		if p.Order.IsReverse() {
			id = f.ids[n-1-k]
		}
		if rt.And(p.From <= id.MID, id.MID <= p.To) {
			total++
			if len(q.IDs) < p.Limit {
				q.IDs = append(q.IDs, seq.IDSource{ID: id})
			}
			if p.HistInterval > 0 {
				q.Histogram[id.MID-id.MID%seq.MID(p.HistInterval)]++
			}
		}
	}
	if p.WithTotal {
		q.Total = uint64(total)
	}
	if len(p.AggQ) == 2 {
		// what the aggregators return: "unique" = the group tokens as keys of empty containers,
		// "count" = containers whose Total is the count
		uniq := seq.AggregatableSamples{SamplesByBin: map[seq.AggBin]*seq.SamplesContainer{}}
		cnt := seq.AggregatableSamples{SamplesByBin: map[seq.AggBin]*seq.SamplesContainer{}}
		for k, id := range f.ids {
			if rt.And(p.From <= id.MID, id.MID <= p.To) {
				bin := seq.AggBin{Token: f.grp[k]}
				if uniq.SamplesByBin[bin] == nil {
					uniq.SamplesByBin[bin] = seq.NewSamplesContainers()
					cnt.SamplesByBin[bin] = seq.NewSamplesContainers()
				}
				cnt.SamplesByBin[bin].Total++
			}
		}
		q.Aggs = []seq.AggregatableSamples{uniq, cnt}
	}
	return q, nil
}

type vAMapping struct{}

// the mapping matters for parsing: on a text field several words are a conjunction
func (vAMapping) GetMapping() seq.Mapping {
	return seq.Mapping{"message": seq.NewSingleType(seq.TokenizerTypeText, "", 0)}
}

const vQuery = `message:"a b"`

var vASTs []string // the parsed query each fraction was searched with

var vWorkerCrashed bool

// vWorker is the goroutine StartSearch spawns: processRequest, dying silently at the crash point.
func vWorker(as *AsyncSearcher, id string) {
	defer func() {
		if r := recover(); r != nil {
			if _, ok := r.(vACrash); !ok {
				panic(r)
			}
			vWorkerCrashed = true
		}
	}()
	as.processRequest(id)
}

// vWaitDone lets the worker goroutine run until the request is marked done (or the process died).
func vWaitDone(as *AsyncSearcher) {
	for i := 0; i < 2000; i++ {
		if vWorkerCrashed {
			panic(vACrash{})
		}
		as.requestsMu.RLock()
		done := as.requests["req1"].Done
		as.requestsMu.RUnlock()
		if done {
			return
		}
		if rt.Symbolic() {
			runtime.Gosched()
		} else {
			time.Sleep(time.Millisecond)
		}
	}
}

func vRunCrash(op func()) (crashed bool) {
	defer func() {
		if r := recover(); r != nil {
			if _, ok := r.(vACrash); !ok {
				panic(r)
			}
			crashed = true
		}
	}()
	op()
	return false
}

// VerifAsync: a finished asynchronous search gives the same IDs, total and histogram as the
// synchronous search over the same fractions, also when the store crashes at any point while
// partial results are being persisted and resumes after the restart.
func VerifAsync() {
	n, nf := rt.Param("DOCS"), rt.Param("FRACS")
	vFS = &vAFS{files: map[string][]byte{}}
	vQPRs, vQPRAggs, vInfos, vWorkerCrashed, vASTs = nil, nil, nil, false, nil
	seq.VerifResetAggStore()
	docs := make([]seq.ID, n)
	for i := range docs {
		docs[i] = seq.ID{MID: seq.MID(rt.NondetU64()), RID: seq.RID(rt.NondetU64())}
		rt.Assume(rt.And(docs[i].MID >= 1, docs[i].MID < 64))
		if i > 0 {
			rt.Assume(seq.Less(docs[i], docs[i-1]))
		}
	}
	fr := make([]*vAFrac, nf)
	fm := &FracManager{config: &Config{}}
	for i := range fr {
		fr[i] = &vAFrac{info: &frac.Info{Path: "seq-db-0" + string([]byte{byte('1' + i)}), From: ^seq.MID(0), To: 0}}
	}
	dup := rt.Param("DUP")
	hasDup := false
	for i, d := range docs {
		a := rt.Choose(nf)
		g := []string{"ga", "gb"}[rt.Choose(2)]
		fr[a].ids = append(fr[a].ids, d)
		fr[a].grp = append(fr[a].grp, g)
		if dup == 1 && i == 0 && nf > 1 && rt.Choose(2) == 1 { // a re-delivered document living in two fractions
			fr[(a+1)%nf].ids = append(fr[(a+1)%nf].ids, d)
			fr[(a+1)%nf].grp = append(fr[(a+1)%nf].grp, g)
			hasDup = true
		}
	}
	var list []frac.Fraction
	for _, f := range fr {
		for _, id := range f.ids {
			f.info.From, f.info.To = min(f.info.From, id.MID), max(f.info.To, id.MID)
		}
		f.info.DocsTotal = uint32(len(f.ids))
		fm.fracs = append(fm.fracs, &fracRef{instance: f})
		list = append(list, f)
	}
	params := processor.SearchParams{From: 0, To: ^seq.MID(0), Limit: n + 1, Order: seq.DocsOrder(rt.Choose(2)), WithTotal: true, HistInterval: uint64(16 * rt.Choose(2)),
		AggQ: []processor.AggQuery{{Func: seq.AggFuncUnique}, {Func: seq.AggFuncCount}}}

	as := &AsyncSearcher{config: AsyncSearcherConfig{DataDir: "/async"}, mp: vAMapping{}, fracManager: fm,
		requests: map[string]asyncSearchInfo{}, rateLimit: make(chan struct{}, 1), createDirOnce: &sync.Once{}}
	vFS.crashAt = rt.NondetInt() // crash point of the run that starts the search
	rt.Assume(rt.And(1 <= vFS.crashAt, vFS.crashAt <= rt.Param("MAXOPS")))
	req := AsyncSearchRequest{ID: "req1", Params: params, Query: vQuery}
	started := false
	var early *FetchSearchResultResponse
	crashed := vRunCrash(func() {
		err := as.StartSearch(req) // spawns processRequest; it runs when this thread waits below
		rt.Assert(err == nil, "search starts")
		started = true
		if rt.Param("EARLYFETCH") == 1 && rt.Choose(2) == 1 {
			// a client polls while the search is still running, and the search finishes while the poll
			// is between listing the partial results and answering
			vFS.afterGlob = func() { vWaitDone(as) }
			if r, ok := as.FetchSearchResult(FetchSearchResultRequest{ID: "req1"}); ok {
				early = &r
			}
			vFS.afterGlob = nil
			rt.Reach("early-fetch")
		}
		vWaitDone(as)
	})
	_ = started
	if crashed {
		rt.Reach("crashed")
		// restart: nothing but the files survives
		vFS.crashAt = 0
		loaded, err := loadAsyncSearches("/async")
		rt.Assert(err == nil, "requests are loaded after the restart")
		as = &AsyncSearcher{config: AsyncSearcherConfig{DataDir: "/async"}, mp: vAMapping{}, fracManager: fm,
			requests: loaded, rateLimit: make(chan struct{}, 1), createDirOnce: &sync.Once{}}
		if _, ok := loaded["req1"]; !ok {
			// the crash came before the request was persisted: it was never acknowledged
			return
		}
		if rt.Param("NEWFRAC") == 1 && rt.Choose(2) == 1 {
			// ingestion went on around the restart: a fraction that did not exist when the search was started
			extra := seq.ID{MID: seq.MID(rt.NondetU64()), RID: seq.RID(rt.NondetU64())}
			rt.Assume(rt.And(extra.MID >= 1, extra.MID < 64))
			nfr := &vAFrac{info: &frac.Info{Path: "seq-db-09", From: extra.MID, To: extra.MID, DocsTotal: 1}, ids: []seq.ID{extra}}
			fm.fracs = append(fm.fracs, &fracRef{instance: nfr})
			rt.Reach("new-fraction-before-resume")
		}
		for _, id := range notProcessedTasks(loaded) {
			as.processRequest(id)
		}
	}
	res, ok := as.FetchSearchResult(FetchSearchResultRequest{ID: "req1"})
	rt.Assert(ok, "the request is known")
	rt.Assert(res.Done, "the search is reported done")
	rt.Reach("done")
	for name := range vFS.files {
		rt.Assert(!strings.HasSuffix(name, ".tmp") || crashed, "no temporary file is left by a clean run")
	}

	// every fraction - before and after the restart - was searched with the query as the mapping reads it
	ref, perr := parser.ParseSeqQL(vQuery, vAMapping{}.GetMapping())
	rt.Assert(perr == nil, "the query parses")
	for _, a := range vASTs {
		rt.Assert(a == ref.Root.String(), "each fraction is searched with the query parsed under the store's mapping")
	}
	params.AST = ref.Root

	// synchronous reference over the same fractions
	s := NewSearcher(2, SearcherCfg{})
	want, err := s.SearchDocs(context.Background(), list, params)
	rt.Assert(err == nil, "synchronous search succeeds")
	if err != nil {
		return
	}
	rt.Assert(len(res.QPR.IDs) == len(want.IDs), "same number of ids as the synchronous search")
	if len(res.QPR.IDs) == len(want.IDs) {
		for i := range want.IDs {
			rt.Assert(res.QPR.IDs[i].ID == want.IDs[i].ID, "same ids in the same order")
		}
	}
	rt.Assert(res.QPR.Total == want.Total, "same total")
	for k, v := range want.Histogram {
		rt.Assert(res.QPR.Histogram[k] == v, "same histogram bucket")
	}
	for k, v := range res.QPR.Histogram {
		rt.Assert(want.Histogram[k] == v, "no extra histogram bucket")
	}
	// aggregations: the same bins (for "unique" the bins are the answer), the same counts
	rt.Assert(len(res.QPR.Aggs) == len(want.Aggs), "same number of aggregations")
	if len(res.QPR.Aggs) == len(want.Aggs) {
		for i := range want.Aggs {
			w, g := want.Aggs[i].SamplesByBin, res.QPR.Aggs[i].SamplesByBin
			for bin, wc := range w {
				gc := g[bin]
				rt.Assert(gc != nil, "every aggregation bin of the synchronous result is in the asynchronous one")
				if gc != nil && !hasDup {
					rt.Assert(gc.Total == wc.Total, "same count in the bin")
				}
			}
			for bin := range g {
				rt.Assert(w[bin] != nil, "no extra aggregation bin")
			}
		}
	}
	if early != nil && early.Done {
		rt.Assert(len(early.QPR.IDs) == len(want.IDs) && (hasDup || early.QPR.Total == want.Total), "a poll that reports the search done carries the complete result")
	}
	rt.Reach("end")
}
