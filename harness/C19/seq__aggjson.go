package seq

// encoding/json inside the custom codec of AggregatableSamples is replaced by an identity store
// of the intermediate struct: MarshalJSON / UnmarshalJSON themselves (bin keys, what is kept)
// run for real.
var vAggStore []aggregatableSamples

func vAggJSONMarshal(_ func(any) ([]byte, error), qh aggregatableSamples) ([]byte, error) {
	cp := aggregatableSamples{SamplesByBin: map[string]*SamplesContainer{}, NotExists: qh.NotExists}
	for k, v := range qh.SamplesByBin {
		c := *v
		cp.SamplesByBin[k] = &c
	}
	vAggStore = append(vAggStore, cp)
	return []byte{'A', byte(len(vAggStore) - 1)}, nil
}

func vAggJSONUnmarshal(_ func([]byte, any) error, b []byte, qh *aggregatableSamples) error {
	src := vAggStore[b[1]]
	qh.NotExists = src.NotExists
	qh.SamplesByBin = map[string]*SamplesContainer{}
	for k, v := range src.SamplesByBin {
		c := *v
		qh.SamplesByBin[k] = &c
	}
	return nil
}

func VerifResetAggStore() { vAggStore = nil }
