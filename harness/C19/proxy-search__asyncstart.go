package search

import (
	"context"
	"time"

	"github.com/google/uuid"
	"google.golang.org/grpc"

	"github.com/ozontech/seq-db/pkg/storeapi"
	"github.com/ozontech/seq-db/proxy/stores"
	"github.com/ozontech/seq-db/seq"
	rt "github.com/ozontech/seq-db/verifrt"
)

// vUUID stands for uuid.New().String(): the identifier's value is irrelevant to the property.
func vUUID(_ func() uuid.UUID) string { return "search-1" }

type vAsyncStore struct {
	storeapi.StoreApiClient
	got []*storeapi.StartAsyncSearchRequest
}

func (c *vAsyncStore) StartAsyncSearch(_ context.Context, req *storeapi.StartAsyncSearchRequest, _ ...grpc.CallOption) (*storeapi.StartAsyncSearchResponse, error) {
	c.got = append(c.got, req)
	return &storeapi.StartAsyncSearchResponse{}, nil
}

// vInstantMs is an arbitrary instant (milliseconds since 1970) in one of four eras - 1970, 2023,
// 2286 and the last representable protobuf timestamp (year 9999) - plus WBITS symbolic bits.
func vInstantMs() int64 {
	bases := [4]int64{0, 1_700_000_000_000, 10_000_000_000_000, 253_402_300_799_000 - (1 << 30)}
	w := uint(rt.Param("WBITS"))
	return bases[rt.Choose(4)] + int64(rt.NondetU64()&(1<<w-1))
}

// VerifAsyncStart: the proxy's StartAsyncSearch hands every shard the search the client asked
// for - the same interval in milliseconds that the synchronous search uses
// (seq.MID(t.UnixMilli()), proxyapi/grpc_v1.go), the same order, histogram interval and
// aggregations - so that the finished asynchronous search can equal the synchronous one.
func VerifAsyncStart() {
	from, to := vInstantMs(), vInstantMs()
	rt.Assume(from <= to)
	order := seq.DocsOrder(rt.Choose(2))
	hist := int64(rt.NondetU64() & 0xffffff)
	aggInterval := int64(rt.NondetU64() & 0xffffff)

	a, b := &vAsyncStore{}, &vAsyncStore{}
	si := NewIngestor(Config{
		HotStores: &stores.Stores{Shards: [][]string{{"a"}, {"b"}}},
	}, map[string]storeapi.StoreApiClient{"a": a, "b": b})

	_, err := si.StartAsyncSearch(context.Background(), AsyncRequest{
		Query:             "message:x",
		From:              time.UnixMilli(from),
		To:                time.UnixMilli(to),
		Order:             order,
		HistogramInterval: seq.MID(hist),
		Aggregations:      []AggQuery{{Field: "level", Func: seq.AggFuncCount, Interval: seq.MID(aggInterval)}},
	})
	rt.Reach("started")
	rt.Assert(err == nil, "the search starts when every shard accepts it")
	rt.Assert(len(a.got) == 1 && len(b.got) == 1, "every shard is asked once")
	for _, st := range []*vAsyncStore{a, b} {
		if len(st.got) != 1 {
			continue
		}
		r := st.got[0]
		rt.Assert(r.From == from, "the shard searches from the instant the client gave (milliseconds, as the synchronous search)")
		rt.Assert(r.To == to, "the shard searches up to the instant the client gave (milliseconds, as the synchronous search)")
		rt.Assert(r.Query == "message:x", "the query is forwarded")
		rt.Assert(r.Order == storeapi.MustProtoOrder(order), "the order is forwarded")
		rt.Assert(r.HistogramInterval == hist, "the histogram interval is forwarded")
		rt.Assert(len(r.Aggs) == 1 && r.Aggs[0].GroupBy == "level" && r.Aggs[0].Func == storeapi.AggFunc_AGG_FUNC_COUNT && r.Aggs[0].Interval == aggInterval, "the aggregation is forwarded")
	}
}
