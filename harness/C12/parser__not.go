package parser

import (
	"github.com/ozontech/seq-db/seq"
	rt "github.com/ozontech/seq-db/verifrt"
)

func vAtom(i int) *ASTNode {
	return &ASTNode{Value: &Literal{Field: "k", Terms: []Term{{Kind: TermText, Data: string([]byte{byte('a' + i)})}}}}
}

// vTrees enumerates constructors of all trees with exactly k operators (NOT, AND, OR) over atoms.
func vTrees(ops, atoms int) [][]func() *ASTNode {
	cat := make([][]func() *ASTNode, ops+1)
	for i := 0; i < atoms; i++ {
		i := i
		cat[0] = append(cat[0], func() *ASTNode { return vAtom(i) })
	}
	for k := 1; k <= ops; k++ {
		for _, c := range cat[k-1] {
			c := c
			cat[k] = append(cat[k], func() *ASTNode { return newNotNode(c()) })
		}
		for i := 0; i <= k-1; i++ {
			for _, l := range cat[i] {
				for _, r := range cat[k-1-i] {
					l, r := l, r
					cat[k] = append(cat[k], func() *ASTNode { return newLogicalNode(LogicalAnd, l(), r()) })
					cat[k] = append(cat[k], func() *ASTNode { return newLogicalNode(LogicalOr, l(), r()) })
				}
			}
		}
	}
	return cat
}

// vTruth evaluates an AST (including NAND nodes) under the atom valuation.
func vTruth(n *ASTNode, val []bool) bool {
	switch t := n.Value.(type) {
	case *Literal:
		return val[t.Terms[0].Data[0]-'a']
	case *Logical:
		switch t.Operator {
		case LogicalNot:
			return rt.Not(vTruth(n.Children[0], val))
		case LogicalAnd:
			return rt.And(vTruth(n.Children[0], val), vTruth(n.Children[1], val))
		case LogicalOr:
			return rt.Or(vTruth(n.Children[0], val), vTruth(n.Children[1], val))
		case LogicalNAnd:
			return rt.And(rt.Not(vTruth(n.Children[0], val)), vTruth(n.Children[1], val))
		}
	}
	panic("bad node")
}

// vNoInnerNot: after propagation NOT may only be the root.
func vNoInnerNot(n *ASTNode, root bool) bool {
	if l, ok := n.Value.(*Logical); ok {
		if l.Operator == LogicalNot && !root {
			return false
		}
		for _, c := range n.Children {
			if !vNoInnerNot(c, false) {
				return false
			}
		}
	}
	return true
}

// VerifPropagateNot: moving NOT operators (De Morgan / NAND fusion) preserves the truth value
// for every valuation of the atoms, and leaves NOT only at the root.
func VerifPropagateNot() {
	ops := rt.Param("OPS")
	atoms := rt.Param("ATOMS")
	var flat []func() *ASTNode
	for _, c := range vTrees(ops, atoms) {
		flat = append(flat, c...)
	}
	tree := flat[rt.Choose(len(flat))]()
	val := make([]bool, atoms)
	for i := range val {
		val[i] = rt.NondetBool()
	}
	before := vTruth(tree, val)
	root, not := propagateNot(tree)
	if not {
		root = newNotNode(root)
	}
	rt.Reach("rewritten")
	rt.Assert(vTruth(root, val) == before, "propagateNot preserves the truth value")
	rt.Assert(vNoInnerNot(root, true), "no inner NOT remains")
	rt.Reach("end")
}

// ---- meaning of a written query ---------------------------------------------------------

// vExpr is an expression as a user writes it: atoms k:a.., in-lists, phrases on a text field,
// not / and / or.
type vExpr struct {
	op   int // 0 atom, 1 not, 2 and, 3 or, 4 k:in(x, y), 5 t:"x y" (text field: a conjunction of words)
	a, b int // atoms of a leaf
	l, r *vExpr
}

func vGenExpr(budget, atoms int) *vExpr {
	if budget == 0 {
		switch k := rt.Choose(atoms + 2); {
		case k < atoms:
			return &vExpr{op: 0, a: k}
		case k == atoms:
			return &vExpr{op: 4, a: 0, b: 1}
		default:
			return &vExpr{op: 5, a: 0, b: 1}
		}
	}
	switch rt.Choose(3) {
	case 0:
		return &vExpr{op: 1, l: vGenExpr(budget-1, atoms)}
	case 1:
		lb := rt.Choose(budget)
		return &vExpr{op: 2, l: vGenExpr(lb, atoms), r: vGenExpr(budget-1-lb, atoms)}
	default:
		lb := rt.Choose(budget)
		return &vExpr{op: 3, l: vGenExpr(lb, atoms), r: vGenExpr(budget-1-lb, atoms)}
	}
}

func vLetter(i int) string { return string([]byte{byte('a' + i)}) }

// vWrite prints the expression with the parentheses the documented precedence requires
// (or < and < not), upper-case operators for the legacy parser.
func vWrite(e *vExpr, parent int, legacy bool) string {
	not, and, or := "not ", " and ", " or "
	if legacy {
		not, and, or = "NOT ", " AND ", " OR "
	}
	var s string
	prec := 4
	switch e.op {
	case 0:
		s = "k:" + vLetter(e.a)
	case 4:
		s = "k:in(" + vLetter(e.a) + ", " + vLetter(e.b) + ")"
	case 5:
		s = `t:"` + vLetter(e.a) + " " + vLetter(e.b) + `"`
	case 1:
		prec = 3
		s = not + vWrite(e.l, 3, legacy)
	case 2:
		prec = 2
		s = vWrite(e.l, 2, legacy) + and + vWrite(e.r, 2, legacy)
	default:
		prec = 1
		s = vWrite(e.l, 1, legacy) + or + vWrite(e.r, 1, legacy)
	}
	if prec < parent {
		return "(" + s + ")"
	}
	return s
}

func vDenotes(e *vExpr, val []bool) bool {
	switch e.op {
	case 0:
		return val[e.a]
	case 4:
		return rt.Or(val[e.a], val[e.b])
	case 5:
		return rt.And(val[e.a], val[e.b])
	case 1:
		return rt.Not(vDenotes(e.l, val))
	case 2:
		return rt.And(vDenotes(e.l, val), vDenotes(e.r, val))
	}
	return rt.Or(vDenotes(e.l, val), vDenotes(e.r, val))
}

func vHasSpecialLeaf(e *vExpr) bool {
	if e == nil {
		return false
	}
	return e.op >= 4 || vHasSpecialLeaf(e.l) || vHasSpecialLeaf(e.r)
}

// VerifParseMeaning: the query a parser returns for a written expression selects exactly the
// documents the expression denotes under the documented reading: not binds tighter than and,
// and tighter than or, parentheses group, in(...) is a disjunction, several words on a text
// field are a conjunction.
func VerifParseMeaning() {
	atoms := rt.Param("ATOMS")
	e := vGenExpr(rt.Choose(rt.Param("OPS")+1), atoms)
	mapping := seq.Mapping{
		"k": seq.NewSingleType(seq.TokenizerTypeKeyword, "", 0),
		"t": seq.NewSingleType(seq.TokenizerTypeText, "", 0),
	}
	val := make([]bool, atoms)
	for i := range val {
		val[i] = rt.NondetBool()
	}
	want := vDenotes(e, val)

	q := vWrite(e, 0, false)
	switch rt.Choose(3) {
	case 1:
		q = "(" + q + ")"
	case 2:
		q += " | fields message" // a pipe after the filter does not change what the filter selects
	}
	parsed, err := ParseSeqQL(q, mapping)
	rt.Assert(err == nil, "a well-formed expression parses (SeqQL)")
	if err == nil {
		rt.Assert(vTruth(parsed.Root, val) == want, "the parsed query denotes the written expression (SeqQL)")
	}
	rt.Reach("seqql")
	if !vHasSpecialLeaf(e) {
		root, lerr := ParseQuery(vWrite(e, 0, true), mapping)
		rt.Assert(lerr == nil, "a well-formed expression parses (legacy)")
		if lerr == nil {
			rt.Assert(vTruth(root, val) == want, "the parsed query denotes the written expression (legacy)")
		}
		rt.Reach("legacy")
	}
	rt.Reach("end")
}
