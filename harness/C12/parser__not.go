package parser

import rt "github.com/ozontech/seq-db/verifrt"

func vAtom(i int) *ASTNode {
	return &ASTNode{Value: &Literal{Field: "k", Terms: []Term{{Kind: TermText, Data: string([]byte{byte('a' + i)})}}}}
}

// vTrees enumerates constructors of all trees with exactly k operators (NOT, AND, OR) over atoms.
func vTrees(ops, atoms int) [][]func() *ASTNode {
	cat := make([][]func() *ASTNode, ops+1)
	for i := 0; i < atoms; i++ {
		i := i
		cat[0] = append(cat[0], func() *ASTNode { return vAtom(i) })
	}
	for k := 1; k <= ops; k++ {
		for _, c := range cat[k-1] {
			c := c
			cat[k] = append(cat[k], func() *ASTNode { return newNotNode(c()) })
		}
		for i := 0; i <= k-1; i++ {
			for _, l := range cat[i] {
				for _, r := range cat[k-1-i] {
					l, r := l, r
					cat[k] = append(cat[k], func() *ASTNode { return newLogicalNode(LogicalAnd, l(), r()) })
					cat[k] = append(cat[k], func() *ASTNode { return newLogicalNode(LogicalOr, l(), r()) })
				}
			}
		}
	}
	return cat
}

// vTruth evaluates an AST (including NAND nodes) under the atom valuation.
func vTruth(n *ASTNode, val []bool) bool {
	switch t := n.Value.(type) {
	case *Literal:
		return val[t.Terms[0].Data[0]-'a']
	case *Logical:
		switch t.Operator {
		case LogicalNot:
			return rt.Not(vTruth(n.Children[0], val))
		case LogicalAnd:
			return rt.And(vTruth(n.Children[0], val), vTruth(n.Children[1], val))
		case LogicalOr:
			return rt.Or(vTruth(n.Children[0], val), vTruth(n.Children[1], val))
		case LogicalNAnd:
			return rt.And(rt.Not(vTruth(n.Children[0], val)), vTruth(n.Children[1], val))
		}
	}
	panic("bad node")
}

// vNoInnerNot: after propagation NOT may only be the root.
func vNoInnerNot(n *ASTNode, root bool) bool {
	if l, ok := n.Value.(*Logical); ok {
		if l.Operator == LogicalNot && !root {
			return false
		}
		for _, c := range n.Children {
			if !vNoInnerNot(c, false) {
				return false
			}
		}
	}
	return true
}

// VerifPropagateNot: moving NOT operators (De Morgan / NAND fusion) preserves the truth value
// for every valuation of the atoms, and leaves NOT only at the root.
func VerifPropagateNot() {
	ops := rt.Param("OPS")
	atoms := rt.Param("ATOMS")
	var flat []func() *ASTNode
	for _, c := range vTrees(ops, atoms) {
		flat = append(flat, c...)
	}
	tree := flat[rt.Choose(len(flat))]()
	val := make([]bool, atoms)
	for i := range val {
		val[i] = rt.NondetBool()
	}
	before := vTruth(tree, val)
	root, not := propagateNot(tree)
	if not {
		root = newNotNode(root)
	}
	rt.Reach("rewritten")
	rt.Assert(vTruth(root, val) == before, "propagateNot preserves the truth value")
	rt.Assert(vNoInnerNot(root, true), "no inner NOT remains")
	rt.Reach("end")
}
