package parser

import (
	rt "github.com/ozontech/seq-db/verifrt"
)

// VerifLemmaUTF8: the branch-structured UTF-8 decoder the engine substitutes for
// utf8.DecodeRuneInString/DecodeRune agrees with the real one on every string of up to 4 bytes
// (the decoder never looks further).
func VerifLemmaUTF8() {
	n := rt.Choose(6)
	s := rt.NondetString(n)
	r1, n1 := rt.DecodeRuneInString(s)
	r2, n2 := rt.StdDecodeRuneInString(s)
	rt.Reach("decoded")
	rt.Assert(r1 == r2, "same rune")
	rt.Assert(n1 == n2, "same size")
}
