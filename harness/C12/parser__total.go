package parser

import (
	"github.com/ozontech/seq-db/seq"
	rt "github.com/ozontech/seq-db/verifrt"
)

func vMapping() seq.Mapping {
	return seq.Mapping{
		"k": seq.NewSingleType(seq.TokenizerTypeKeyword, "", 0),
		"t": seq.NewSingleType(seq.TokenizerTypeText, "", 0),
		"p": seq.NewSingleType(seq.TokenizerTypePath, "", 0),
		"e": seq.NewSingleType(seq.TokenizerTypeExists, "", 0),
		"o": seq.NewSingleType(seq.TokenizerTypeObject, "", 0),
		"g": seq.NewSingleType(seq.TokenizerTypeTags, "", 0),
		"n": seq.NewSingleType(seq.TokenizerTypeNested, "", 0),
		"m": {
			Main: seq.MappingType{TokenizerType: seq.TokenizerTypeText},
			All: []seq.MappingType{
				{Title: "m", TokenizerType: seq.TokenizerTypeText},
				{Title: "m.keyword", TokenizerType: seq.TokenizerTypeKeyword, MaxSize: 8},
			},
		},
	}
}

var vFields = []string{"k", "t", "p", "e", "o", "g", "n", "m", "u", "_exists_", ""}

// VerifParseTotal: for a field of every mapping type followed by arbitrary bytes (and for
// arbitrary bytes alone) both parsers return a query or an error: no panic, no endless loop.
func VerifParseTotal() {
	fi := rt.Choose(len(vFields))
	legacy := rt.Choose(2) == 1
	nilMapping := rt.Choose(2) == 1
	n := rt.Choose(rt.Param("BYTES") + 1)
	q := vFields[fi]
	if q != "" {
		q += ":"
	}
	tail := rt.NondetBytes(n)
	if rt.Param("ASCII") == 1 {
		for _, b := range tail {
			rt.Assume(b < 0x80)
		}
	}
	q += string(tail)
	var mapping seq.Mapping
	if !nilMapping {
		mapping = vMapping()
	}
	var err error
	if legacy {
		_, err = ParseQuery(q, mapping)
	} else {
		_, err = ParseSeqQL(q, mapping)
	}
	rt.Reach("parsed")
	rt.Assert(rt.Or(err == nil, err != nil), "parser returned")
}
