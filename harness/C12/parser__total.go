package parser

import (
	"github.com/ozontech/seq-db/seq"
	rt "github.com/ozontech/seq-db/verifrt"
)

func vMapping() seq.Mapping {
	return seq.Mapping{
		"k": seq.NewSingleType(seq.TokenizerTypeKeyword, "", 0),
		"t": seq.NewSingleType(seq.TokenizerTypeText, "", 0),
		"p": seq.NewSingleType(seq.TokenizerTypePath, "", 0),
		"e": seq.NewSingleType(seq.TokenizerTypeExists, "", 0),
		"o": seq.NewSingleType(seq.TokenizerTypeObject, "", 0),
		"g": seq.NewSingleType(seq.TokenizerTypeTags, "", 0),
		"n": seq.NewSingleType(seq.TokenizerTypeNested, "", 0),
		"m": {
			Main: seq.MappingType{TokenizerType: seq.TokenizerTypeText},
			All: []seq.MappingType{
				{Title: "m", TokenizerType: seq.TokenizerTypeText},
				{Title: "m.keyword", TokenizerType: seq.TokenizerTypeKeyword, MaxSize: 8},
			},
		},
	}
}

var vFields = []string{"k", "t", "p", "e", "o", "g", "n", "m", "u", "_exists_", ""}

// VerifParseTotal: for a field of every mapping type followed by arbitrary bytes (and for
// arbitrary bytes alone) both parsers return a query or an error: no panic, no endless loop.
func VerifParseTotal() {
	fi := rt.Choose(len(vFields))
	legacy := rt.Choose(2) == 1
	nilMapping := rt.Choose(2) == 1
	n := rt.Choose(rt.Param("BYTES") + 1)
	q := vFields[fi]
	if q != "" {
		q += ":"
	}
	tail := rt.NondetBytes(n)
	if rt.Param("ASCII") == 1 {
		for _, b := range tail {
			rt.Assume(b < 0x80)
		}
	}
	q += string(tail)
	var mapping seq.Mapping
	if !nilMapping {
		mapping = vMapping()
	}
	var err error
	if legacy {
		_, err = ParseQuery(q, mapping)
	} else {
		_, err = ParseSeqQL(q, mapping)
	}
	rt.Reach("parsed")
	rt.Assert(rt.Or(err == nil, err != nil), "parser returned")
}

// vLexemes: the pieces queries are made of; a sequence of them reaches the structural corners of
// the grammar (unbalanced parentheses, empty in-lists, dangling operators, ranges, quotes,
// escapes, pipes) that a few arbitrary bytes cannot spell.
var vLexemes = []string{
	"k:a", "t:a", "m:a", "e:a", " ", "(", ")", "not ", " and ", " or ", "in(", ",", "\"", "'", "*", ":", "[", "]", "{", "}",
	" to ", "1", "-", "\\", "|", " fields ", " except ", "k", "_exists_:", "a",
	// quoted forms of the keywords: a quoted token is a value, never a keyword
	" '|'", " \"and\"", " `or`", " 'not'", " ')'", " \"(\"", " 'to'", " '*'",
}

// vFilters: complete filters a query may start with.
var vFilters = []string{"k:a", "t:a b", "m:a", "e:a", "k:in(a, b)", "(k:a)", "not k:a", "k:[1 to 2]", "k:\"a\"", "*"}

// VerifParseTotalLexemes: totality on every sequence of up to LEXEMES lexemes, each followed by
// nothing or by one symbolic byte.
func VerifParseTotalLexemes() {
	n := 1 + rt.Choose(rt.Param("LEXEMES"))
	q := ""
	if rt.Param("FILTERFIRST") == 1 { // what follows a complete filter (operators, pipes, closing tokens, quoted keywords)
		q = vFilters[rt.Choose(len(vFilters))]
	}
	for i := 0; i < n; i++ {
		q += vLexemes[rt.Choose(len(vLexemes))]
	}
	if rt.Param("TAILBYTE") == 1 && rt.Choose(2) == 1 {
		q += string(rt.NondetBytes(1))
	}
	legacy := rt.Choose(2) == 1
	var mapping seq.Mapping
	if rt.Choose(2) == 1 {
		mapping = vMapping()
	}
	var err error
	if legacy {
		_, err = ParseQuery(q, mapping)
	} else {
		_, err = ParseSeqQL(q, mapping)
	}
	rt.Reach("parsed")
	rt.Assert(rt.Or(err == nil, err != nil), "parser returned")
}
