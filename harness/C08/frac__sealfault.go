package frac

import (
	"context"
	"io"
	"os"
	"sync"

	"github.com/ozontech/seq-db/cache"
	"github.com/ozontech/seq-db/disk"
	"github.com/ozontech/seq-db/frac/lids"
	"github.com/ozontech/seq-db/frac/token"
	"github.com/ozontech/seq-db/node"
	"github.com/ozontech/seq-db/seq"
	rt "github.com/ozontech/seq-db/verifrt"
)

// ---- in-memory index file -------------------------------------------------

type vIOErr struct{}

func (vIOErr) Error() string { return "injected I/O error" }

type vMem struct {
	data   []byte
	pos    int64
	ops    int
	failAt int // the failAt-th Write/Seek fails (0 = never)
	failed bool
}

func (m *vMem) step() bool {
	m.ops++
	if m.ops == m.failAt {
		m.failed = true
		return true
	}
	return false
}

func (m *vMem) Write(p []byte) (int, error) {
	if m.step() {
		return 0, vIOErr{}
	}
	end := int(m.pos) + len(p)
	for len(m.data) < end {
		m.data = append(m.data, 0)
	}
	copy(m.data[m.pos:], p)
	m.pos = int64(end)
	return len(p), nil
}

func (m *vMem) Seek(off int64, whence int) (int64, error) {
	if m.step() {
		return 0, vIOErr{}
	}
	switch whence {
	case io.SeekStart:
		m.pos = off
	case io.SeekCurrent:
		m.pos += off
	default:
		m.pos = int64(len(m.data)) + off
	}
	return m.pos, nil
}

func (m *vMem) readAt(_ *os.File, buf []byte, off int64) (int, error) {
	if off >= int64(len(m.data)) {
		return 0, io.EOF
	}
	n := copy(buf, m.data[off:])
	if n < len(buf) {
		return n, io.EOF
	}
	return n, nil
}

// ---- a small active fraction ----------------------------------------------

type vDocT struct {
	id   seq.ID
	toks []int // indexes into vTokVals
	pos  seq.DocPos
}

var vTokVals = []string{"a", "b", "c"}

// vIndexBulk2 is appendWorker's sequence for one decoded bulk.
func vIndexBulk2(f *Active, c *metaDataCollector, metas []MetaData, blockPos uint64) {
	blockIndex := f.DocBlocks.Append(blockPos)
	c.Init(blockIndex)
	for _, m := range metas {
		c.AppendMeta(m)
	}
	appended := f.DocsPositions.SetMultiple(c.IDs, c.Positions)
	if len(appended) != len(c.IDs) {
		c.Filter(appended)
	}
	lidsList := f.AppendIDs(c.IDs)
	places := c.PrepareTokenLIDsPlaces()
	f.TokenList.Append(c.TokensValues, c.FieldsLengths, places)
	groups := c.GroupLIDsByToken(lidsList)
	addLIDsToTokens(places, groups)
	f.UpdateStats(c.MinMID, c.MaxMID, c.DocsCounter, c.SizeCounter)
}

// vBuildActive ingests n documents with symbolic IDs (pairwise distinct) in bulks of `per`
// documents; each document carries an arbitrary subset of nt tokens of field "f".
func vBuildActive(n, nt, per int) (*Active, []*vDocT) {
	f := &Active{
		Config:        &Config{SkipSortDocs: true},
		TokenList:     NewActiveTokenList(1),
		DocsPositions: NewSyncDocsPositions(),
		MIDs:          NewIDs(),
		RIDs:          NewIDs(),
		DocBlocks:     NewIDs(),
		info:          &Info{Path: "frac", From: ^seq.MID(0), To: 0, BinaryDataVer: BinaryDataV1},
	}
	f.MIDs.Append(systemMID)
	f.RIDs.Append(systemRID)
	c := newMetaDataCollector()
	var docs []*vDocT
	var metas []MetaData
	blockPos := uint64(0)
	for i := 0; i < n; i++ {
		d := &vDocT{id: seq.ID{MID: seq.MID(rt.NondetU64()), RID: seq.RID(rt.NondetU64())}}
		rt.Assume(rt.And(d.id.MID >= 1, d.id.MID < 63)) // one-byte varint deltas: no case split on encoded length
		for _, o := range docs {
			rt.Assume(o.id != d.id)
		}
		m := MetaData{ID: d.id, Size: 2, Tokens: []MetaToken{{Key: []byte(seq.TokenAll), Value: []byte{}}}}
		mask := rt.Choose(1 << nt)
		for t := 0; t < nt; t++ {
			if mask&(1<<t) != 0 {
				d.toks = append(d.toks, t)
				m.Tokens = append(m.Tokens, MetaToken{Key: []byte("f"), Value: []byte(vTokVals[t])})
			}
		}
		docs = append(docs, d)
		metas = append(metas, m)
		if len(metas) == per || i == n-1 {
			vIndexBulk2(f, c, metas, blockPos)
			blockPos += 100
			metas = nil
		}
	}
	for _, d := range docs {
		d.pos = f.DocsPositions.Get(d.id)
	}
	return f, docs
}

func vIndexCache() *IndexCache {
	return &IndexCache{
		Registry:   cache.NewCache[[]byte](nil, nil),
		MIDs:       cache.NewCache[[]byte](nil, nil),
		RIDs:       cache.NewCache[[]byte](nil, nil),
		Params:     cache.NewCache[[]uint64](nil, nil),
		Tokens:     cache.NewCache[*token.CacheEntry](nil, nil),
		TokenTable: cache.NewCache[token.Table](nil, nil),
		LIDs:       cache.NewCache[*lids.Chunks](nil, nil),
	}
}

func vDrain(n node.Node, max int) []uint32 {
	var out []uint32
	for i := 0; i <= max; i++ {
		v, ok := n.Next()
		if !ok {
			return out
		}
		out = append(out, v)
	}
	rt.Assert(false, "posting iterator yields more LIDs than documents")
	return out
}

type vNoCount struct{}

func (vNoCount) AddLIDsCount(int) {}

// VerifSealFault: if any write or seek of the index output fails while a fraction is sealed,
// writeSealedFraction reports an error (so Seal never renames the temporary file into place).
func VerifSealFault() {
	n := rt.Param("DOCS")
	nt := rt.Param("TOKENS")
	f, _ := vBuildActive(n, nt, rt.Param("BULK"))
	mem := &vMem{data: make([]byte, 16), pos: 16}
	mem.failAt = rt.NondetInt()
	rt.Assume(rt.And(mem.failAt >= 1, mem.failAt <= rt.Param("MAXOPS")))
	disk.VerifReadAt = mem.readAt
	info := *f.info
	_, err := writeSealedFraction(f, &info, mem, SealParams{})
	rt.Reach("returned")
	if mem.failed {
		rt.Assert(err != nil, "a failed write of the index output makes sealing fail")
		rt.Reach("fault-injected")
	} else {
		rt.Assert(err == nil, "sealing succeeds when every write succeeds")
		rt.Assert(mem.ops < mem.failAt, "fault index lies beyond the last output operation")
	}
}

var _ = vDrain
var _ = vNoCount{}
var _ = vIndexCache
var _ = context.Background
var _ sync.Mutex
