package storeapi

import (
	"context"

	"github.com/ozontech/seq-db/conf"
	"github.com/ozontech/seq-db/frac"
	"github.com/ozontech/seq-db/frac/processor"
	"github.com/ozontech/seq-db/fracmanager"
	"github.com/ozontech/seq-db/seq"
	rt "github.com/ozontech/seq-db/verifrt"
)

type vDoc struct {
	id  seq.ID
	doc []byte
}

// vFrac is a fraction with arbitrary content: Fetch returns the stored bytes for a stored ID and
// nil otherwise (the contract of frac.DataProvider.Fetch, decided separately for the real indexes).
type vFrac struct {
	info *frac.Info
	docs []vDoc
}

func (f *vFrac) Info() *frac.Info { return f.info }
func (f *vFrac) IsIntersecting(from, to seq.MID) bool {
	return rt.And(f.info.From <= to, from <= f.info.To)
}
func (f *vFrac) Contains(mid seq.MID) bool { return rt.And(f.info.From <= mid, mid <= f.info.To) }
func (f *vFrac) DataProvider(context.Context) (frac.DataProvider, func()) {
	return f, func() {}
}
func (f *vFrac) Suicide() {}
func (f *vFrac) Search(processor.SearchParams) (*seq.QPR, error) { panic("unused") }
func (f *vFrac) Fetch(ids []seq.ID) ([][]byte, error) {
	res := make([][]byte, len(ids))
	for i, id := range ids {
		for _, d := range f.docs {
			if d.id == id {
				res[i] = d.doc
			}
		}
	}
	return res, nil
}

// VerifFetchStream: streaming a fetch of K distinct IDs yields, position by position, the stored
// bytes or a not-found entry; it never errors, panics or loops, whatever the mix of present and
// absent IDs and whatever the document sizes.
func VerifFetchStream() {
	nf := rt.Param("FRACS")
	nd := rt.Param("DOCS")
	k := rt.Param("IDS")
	minLen := rt.Param("MINLEN")
	maxLen := rt.Param("MAXLEN")

	maxFetch := rt.NondetInt()
	rt.Assume(rt.And(1 <= maxFetch, maxFetch <= 1<<30))
	conf.MaxFetchSizeBytes = maxFetch

	sameLen := -1
	if rt.Param("SAMELEN") == 1 {
		sameLen = minLen + rt.Choose(maxLen-minLen+1)
	}
	var fracs fracmanager.List
	var all []vDoc
	var where []int
	for fi := 0; fi < nf; fi++ {
		f := &vFrac{info: &frac.Info{Path: string([]byte{'f', byte('0' + fi)})}}
		f.info.From, f.info.To = seq.MID(rt.NondetU64()), seq.MID(rt.NondetU64())
		for di := 0; di < nd; di++ {
			d := vDoc{id: seq.ID{MID: seq.MID(rt.NondetU64()), RID: seq.RID(rt.NondetU64())}}
			if sameLen >= 0 {
				d.doc = rt.NondetBytes(sameLen)
			} else {
				d.doc = rt.NondetBytes(minLen + rt.Choose(maxLen-minLen+1))
			}
			rt.Assume(rt.And(f.info.From <= d.id.MID, d.id.MID <= f.info.To))
			for _, o := range all {
				rt.Assume(o.id != d.id) // a document lives in one place (replays of a bulk are C17)
			}
			f.docs = append(f.docs, d)
			all = append(all, d)
			where = append(where, fi)
		}
		fracs = append(fracs, f)
	}
	hints := rt.Choose(2) == 1
	ids := make(seq.IDSources, k)
	want := make([][]byte, k)
	for i := range ids {
		c := rt.Choose(len(all) + 1)
		if c < len(all) {
			ids[i].ID = all[c].id
			want[i] = all[c].doc
			if hints {
				ids[i].Hint = fracs[where[c]].Info().Name()
			}
		} else {
			ids[i].ID = seq.ID{MID: seq.MID(rt.NondetU64()), RID: seq.RID(rt.NondetU64())}
			for _, o := range all {
				rt.Assume(o.id != ids[i].ID)
			}
		}
		for j := 0; j < i; j++ {
			rt.Assume(ids[j].ID != ids[i].ID)
		}
	}

	ds := newDocsStream(context.Background(), ids, fracmanager.NewFetcher(2), fracs)
	for i := 0; i < k; i++ {
		doc, err := ds.Next()
		rt.Assert(err == nil, "fetch never turns into an error")
		if want[i] == nil {
			rt.Assert(len(doc) == 0, "unknown id is a not-found entry")
		} else {
			rt.Assert(string(doc) == string(want[i]), "stored bytes verbatim")
		}
	}
	rt.Reach("end")
}
