package disk

import "os"

// VerifReadAt replaces (*os.File).ReadAt inside ReadLimiter.ReadAt: the harness serves reads
// from its in-memory file.
var VerifReadAt func(f *os.File, buf []byte, offset int64) (int, error)

// vKeep stands for zstd.CompressLevel: blocks are stored uncompressed.
func vKeep(_ func([]byte, []byte, int) []byte, data []byte) []byte { return data }

// vNoCompress / vNoDecompress stand for zstd: the payload is stored as it is.
func vNoCompress(_ func([]byte, []byte, int) []byte, src, dst []byte, _ int) []byte {
	return append(dst, src...)
}
func vNoDecompress(_ func([]byte, []byte) ([]byte, error), src, dst []byte) ([]byte, error) {
	return append(dst, src...), nil
}
