package frac

import (
	"context"
	"encoding/binary"
	"io"
	"os"
	"sync"

	"github.com/ozontech/seq-db/cache"
	"github.com/ozontech/seq-db/disk"
	"github.com/ozontech/seq-db/seq"
	rt "github.com/ozontech/seq-db/verifrt"
)

// VerifFetchBytes: documents ingested through the real store path - bulk payload in the
// proxy's wire format, DocsMetasCompressor, Active.Append (ActiveWriter, ActiveIndexer with its
// append worker, metaDataCollector, DocsPositions) - are fetched back by ID byte for byte
// through activeDataProvider.Fetch (IndexFetch, GroupDocsOffsets, DocsReader.ReadDocs,
// extractDocsFromBlockFunc); unknown IDs give empty entries and disturb nothing.
func VerifFetchBytes() {
	n, per, k := rt.Param("DOCS"), rt.Param("BULK"), rt.Param("IDS")
	docsF, metaF := &vFile{tearAt: -1}, &vFile{tearAt: -1}
	disk.VerifReadAt = docsF.readAt
	ai := NewActiveIndexer(1, 8)
	ai.Start()
	f := &Active{
		Config:        &Config{},
		TokenList:     NewActiveTokenList(1),
		DocsPositions: NewSyncDocsPositions(),
		MIDs:          NewIDs(),
		RIDs:          NewIDs(),
		DocBlocks:     NewIDs(),
		docsReader:    disk.NewDocsReader(disk.NewReadLimiter(1, nil), nil, cache.NewCache[[]byte](nil, nil)),
		indexer:       ai,
		writer:        &ActiveWriter{docs: NewFileWriter(docsF, 0, true), meta: NewFileWriter(metaF, 0, true)},
		info:          &Info{Path: "frac", From: ^seq.MID(0), To: 0, BinaryDataVer: BinaryDataV1},
	}
	f.MIDs.Append(systemMID)
	f.RIDs.Append(systemRID)

	ids := make([]seq.ID, n)
	bodies := make([][]byte, n)
	var docsPayload, metasPayload []byte
	inBulk := 0
	for i := 0; i < n; i++ {
		ids[i] = seq.ID{MID: seq.MID(rt.NondetU64()), RID: seq.RID(rt.NondetU64())}
		rt.Assume(rt.And(ids[i].MID >= 1, ids[i].MID < 1<<40))
		for j := 0; j < i; j++ {
			rt.Assume(ids[j] != ids[i])
		}
		bodies[i] = rt.NondetBytes(1 + rt.Choose(2))
		// the bulk as the proxy sends it: length-prefixed documents, length-prefixed binary metadata
		docsPayload = binary.LittleEndian.AppendUint32(docsPayload, uint32(len(bodies[i])))
		docsPayload = append(docsPayload, bodies[i]...)
		md := MetaData{ID: ids[i], Size: uint32(len(bodies[i])), Tokens: []MetaToken{{Key: []byte(seq.TokenAll), Value: []byte{}}}}
		mb := md.MarshalBinaryTo(nil)
		metasPayload = binary.LittleEndian.AppendUint32(metasPayload, uint32(len(mb)))
		metasPayload = append(metasPayload, mb...)
		inBulk++
		if inBulk == per || i == n-1 {
			c := GetDocsMetasCompressor(1, 1)
			c.CompressDocsAndMetas(docsPayload, metasPayload)
			d, m := c.DocsMetas()
			var wg sync.WaitGroup
			wg.Add(1)
			err := f.Append(append([]byte(nil), d...), append([]byte(nil), m...), &wg)
			rt.Assert(err == nil, "the bulk is written")
			wg.Wait()
			PutDocMetasCompressor(c)
			docsPayload, metasPayload, inBulk = nil, nil, 0
		}
	}
	rt.Reach("ingested")

	// request: any mix of stored and unknown IDs
	req := make([]seq.ID, k)
	which := make([]int, k)
	for i := range req {
		which[i] = rt.Choose(n + 1)
		if which[i] < n {
			req[i] = ids[which[i]]
		} else {
			req[i] = seq.ID{MID: seq.MID(rt.NondetU64()), RID: seq.RID(rt.NondetU64())}
			for _, s := range ids {
				rt.Assume(req[i] != s)
			}
		}
	}
	dp := f.createDataProvider(context.Background())
	res, err := dp.Fetch(req)
	rt.Assert(err == nil, "fetch succeeds")
	if err != nil {
		return
	}
	rt.Assert(len(res) == len(req), "one entry per requested ID")
	for i := range req {
		if which[i] < n {
			want := bodies[which[i]]
			rt.Assert(len(res[i]) == len(want), "a stored document comes back with its length")
			if len(res[i]) == len(want) {
				for b := range want {
					rt.Assert(res[i][b] == want[b], "a stored document comes back byte for byte")
				}
			}
		} else {
			rt.Assert(len(res[i]) == 0, "an unknown ID is an empty entry")
		}
	}
	if rt.Param("SORT") == 1 {
		vSortedDocs(f, ids, bodies)
	}
	rt.Reach("end")
}

type vSeqWriter struct{ f *vFile }

func (w vSeqWriter) Write(p []byte) (int, error) { return w.f.WriteAt(p, int64(len(w.f.data))) }

// vSortedDocs: sealing rewrites the documents in ID order into new blocks (writeDocsInOrder,
// docBlocksWriter); every document is then found at its new position with its bytes.
func vSortedDocs(f *Active, ids []seq.ID, bodies [][]byte) {
	sortedIDs, _ := sortSeqIDs(f, f.MIDs.GetVals(), f.RIDs.GetVals())
	sdocs := &vFile{tearAt: -1}
	bw := getDocBlocksWriter(vSeqWriter{sdocs}, rt.Param("SDOCBLOCK"), 1)
	err := writeDocsInOrder(f.DocsPositions, f.DocBlocks.GetVals(), f.docsReader, sortedIDs, bw)
	rt.Assert(err == nil, "documents are rewritten in ID order")
	if err != nil {
		return
	}
	offsets := append([]uint64(nil), bw.BlockOffsets...)
	positions := map[seq.ID]seq.DocPos{}
	for id, p := range bw.Positions {
		positions[id] = p
	}
	putDocBlocksWriter(bw)
	rt.Reach("sorted")
	disk.VerifReadAt = sdocs.readAt
	rd := disk.NewDocsReader(disk.NewReadLimiter(1, nil), nil, cache.NewCache[[]byte](nil, nil))
	for i, id := range ids {
		p, ok := positions[id]
		rt.Assert(ok, "every document has a position in the sorted docs file")
		if !ok {
			continue
		}
		bi, off := p.Unpack()
		rt.Assert(int(bi) < len(offsets), "the position names an existing block")
		if int(bi) >= len(offsets) {
			continue
		}
		got, rerr := rd.ReadDocs(offsets[bi], []uint64{off})
		rt.Assert(rerr == nil && len(got) == 1, "the document is readable at its new position")
		if rerr != nil || len(got) != 1 {
			continue
		}
		rt.Assert(len(got[0]) == len(bodies[i]), "sorted docs: same length")
		if len(got[0]) == len(bodies[i]) {
			for b := range bodies[i] {
				rt.Assert(got[0][b] == bodies[i][b], "sorted docs: byte for byte")
			}
		}
	}
}

// ---- two fractions sealed one after the other in one process --------------------------------

var vSDTarget *vFile // where the sorted docs of the fraction being sealed go

func vSDCreate(string) (*os.File, error)                  { return new(os.File), nil }
func vSDWriter(*os.File) io.Writer                         { return vSeqWriter{vSDTarget} }
func vSDSyncRename(f *os.File, _ string) (*os.File, error) { return f, nil }
func vSDStat(*os.File) (os.FileInfo, error)                { return nil, nil }

// vIngest builds an active fraction over in-memory files; symbolic IDs and bytes, or fixed ones.
func vIngest(n, per int, symbolic bool) (*Active, []seq.ID, [][]byte, *vFile) {
	docsF, metaF := &vFile{tearAt: -1}, &vFile{tearAt: -1}
	ai := NewActiveIndexer(1, 8)
	ai.Start()
	rd := disk.NewDocsReader(disk.NewReadLimiter(1, nil), nil, cache.NewCache[[]byte](nil, nil))
	f := &Active{
		Config:        &Config{},
		TokenList:     NewActiveTokenList(1),
		DocsPositions: NewSyncDocsPositions(),
		MIDs:          NewIDs(),
		RIDs:          NewIDs(),
		DocBlocks:     NewIDs(),
		docsReader:    rd,
		sortReader:    rd,
		indexer:       ai,
		writer:        &ActiveWriter{docs: NewFileWriter(docsF, 0, true), meta: NewFileWriter(metaF, 0, true)},
		info:          &Info{Path: "frac", From: ^seq.MID(0), To: 0, BinaryDataVer: BinaryDataV1},
		BaseFileName:  "frac",
	}
	f.MIDs.Append(systemMID)
	f.RIDs.Append(systemRID)
	ids := make([]seq.ID, n)
	bodies := make([][]byte, n)
	var docsPayload, metasPayload []byte
	inBulk := 0
	for i := 0; i < n; i++ {
		if symbolic {
			ids[i] = seq.ID{MID: seq.MID(rt.NondetU64()), RID: seq.RID(rt.NondetU64())}
			rt.Assume(rt.And(ids[i].MID >= 1, ids[i].MID < 1<<40))
			for j := 0; j < i; j++ {
				rt.Assume(ids[j] != ids[i])
			}
			bodies[i] = rt.NondetBytes(1 + rt.Choose(2))
		} else {
			ids[i] = seq.ID{MID: seq.MID(1000 + 10*i), RID: seq.RID(5)}
			bodies[i] = []byte{byte('A' + i), byte('a' + i), '!'}
		}
		docsPayload = binary.LittleEndian.AppendUint32(docsPayload, uint32(len(bodies[i])))
		docsPayload = append(docsPayload, bodies[i]...)
		md := MetaData{ID: ids[i], Size: uint32(len(bodies[i])), Tokens: []MetaToken{{Key: []byte(seq.TokenAll), Value: []byte{}}}}
		mb := md.MarshalBinaryTo(nil)
		metasPayload = binary.LittleEndian.AppendUint32(metasPayload, uint32(len(mb)))
		metasPayload = append(metasPayload, mb...)
		inBulk++
		if inBulk == per || i == n-1 {
			c := GetDocsMetasCompressor(1, 1)
			c.CompressDocsAndMetas(docsPayload, metasPayload)
			d, m := c.DocsMetas()
			var wg sync.WaitGroup
			wg.Add(1)
			disk.VerifReadAt = docsF.readAt
			err := f.Append(append([]byte(nil), d...), append([]byte(nil), m...), &wg)
			rt.Assert(err == nil, "the bulk is written")
			wg.Wait()
			PutDocMetasCompressor(c)
			docsPayload, metasPayload, inBulk = nil, nil, 0
		}
	}
	return f, ids, bodies, docsF
}

func vCheckSorted(sdocs *vFile, ids []seq.ID, bodies [][]byte, offsets []uint64, positions map[seq.ID]seq.DocPos, label string) {
	disk.VerifReadAt = sdocs.readAt
	rd := disk.NewDocsReader(disk.NewReadLimiter(1, nil), nil, cache.NewCache[[]byte](nil, nil))
	for i, id := range ids {
		p, ok := positions[id]
		rt.Assert(ok, label+": every document has a position in the sorted docs file")
		if !ok {
			continue
		}
		bi, off := p.Unpack()
		rt.Assert(int(bi) < len(offsets), label+": the position names an existing block")
		if int(bi) >= len(offsets) {
			continue
		}
		got, rerr := rd.ReadDocs(offsets[bi], []uint64{off})
		rt.Assert(rerr == nil && len(got) == 1, label+": the document is readable at its position")
		if rerr != nil || len(got) != 1 {
			continue
		}
		rt.Assert(len(got[0]) == len(bodies[i]), label+": same length")
		if len(got[0]) == len(bodies[i]) {
			for b := range bodies[i] {
				rt.Assert(got[0][b] == bodies[i][b], label+": byte for byte")
			}
		}
	}
}

// VerifTwoSeals: sealing a second fraction in the same process (same pooled writers and buffers)
// leaves the first sealed fraction's documents where its block offsets and positions say.
func VerifTwoSeals() {
	n, per := rt.Param("DOCS"), rt.Param("BULK")
	params := SealParams{DocBlockSize: rt.Param("SDOCBLOCK"), DocBlocksZstdLevel: 1}
	fa, idsA, bodiesA, docsA := vIngest(n, per, true)
	sortedA, _ := sortSeqIDs(fa, fa.MIDs.GetVals(), fa.RIDs.GetVals())
	sdA := &vFile{tearAt: -1}
	vSDTarget = sdA
	disk.VerifReadAt = docsA.readAt
	_, offA, posA, err := writeSortedDocs(fa, params, sortedA)
	rt.Assert(err == nil, "first fraction: sorted docs written")
	if err != nil {
		return
	}
	vCheckSorted(sdA, idsA, bodiesA, offA, posA, "first fraction")
	rt.Reach("first-sealed")

	fb, idsB, bodiesB, docsB := vIngest(3, 3, false)
	sortedB, _ := sortSeqIDs(fb, fb.MIDs.GetVals(), fb.RIDs.GetVals())
	sdB := &vFile{tearAt: -1}
	vSDTarget = sdB
	disk.VerifReadAt = docsB.readAt
	_, offB, posB, err := writeSortedDocs(fb, params, sortedB)
	rt.Assert(err == nil, "second fraction: sorted docs written")
	if err != nil {
		return
	}
	vCheckSorted(sdB, idsB, bodiesB, offB, posB, "second fraction")
	// the first fraction again, with the very slices and map its sealing returned
	vCheckSorted(sdA, idsA, bodiesA, offA, posA, "first fraction after the second seal")
	rt.Reach("end")
}
