package seq

// VerifBucket exposes getAggBucket (the value handed to the client for one bin) to the harness.
func (q *AggregatableSamples) VerifBucket(bin AggBin, hist *SamplesContainer, args AggregateArgs) AggregationBucket {
	return q.getAggBucket(bin, hist, args)
}
