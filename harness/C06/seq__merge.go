package seq

import (
	"math"

	rt "github.com/ozontech/seq-db/verifrt"
)

// VerifMergeOrder: merging the partial aggregation results of several fractions / shards gives
// the same min, max, total and not-exists counts in whatever order they are merged, equal to
// the values computed directly from all samples.
func VerifMergeOrder() {
	parts := rt.Param("PARTS")
	per := rt.Param("SAMPLES")
	var all []float64
	var aggs []AggregatableSamples
	notExists := int64(0)
	for p := 0; p < parts; p++ {
		c := NewSamplesContainers()
		k := rt.Choose(per + 1) // a partial result may have no sample in the bin
		for i := 0; i < k; i++ {
			v := rt.NondetF64()
			rt.Assume(!math.IsNaN(v) && !math.IsInf(v, 0))
			rt.Assume(v != 0) // signed zeros compare equal; keeps the reference fold simple
			c.InsertNTimes(v, 1)
			c.InsertSampleNTimes(v, 1) // as the aggregator does when quantiles are requested
			all = append(all, v)
		}
		ne := int64(rt.NondetU8())
		c.NotExists = ne
		notExists += ne
		a := AggregatableSamples{SamplesByBin: map[AggBin]*SamplesContainer{}}
		if k > 0 || ne > 0 {
			a.SamplesByBin[AggBin{Token: "g"}] = c
		}
		aggs = append(aggs, a)
	}
	// merge in an arbitrary order, through the real MergeQPRs
	perms := [][]int{{0, 1, 2}, {0, 2, 1}, {1, 0, 2}, {1, 2, 0}, {2, 0, 1}, {2, 1, 0}}
	if parts == 2 {
		perms = [][]int{{0, 1}, {1, 0}}
	}
	order := perms[rt.Choose(len(perms))]
	dst := &QPR{Aggs: make([]AggregatableSamples, 1)}
	var qprs []*QPR
	for _, i := range order {
		qprs = append(qprs, &QPR{Aggs: []AggregatableSamples{aggs[i]}})
	}
	MergeQPRs(dst, qprs, 10, 0, DocsOrderDesc)
	rt.Reach("merged")
	got := dst.Aggs[0].SamplesByBin[AggBin{Token: "g"}]
	if len(all) == 0 && notExists == 0 {
		return
	}
	rt.Assert(got != nil, "the bin exists in the merged result")
	if got == nil {
		return
	}
	rt.Assert(got.Total == int64(len(all)), "total = number of samples")
	rt.Assert(got.NotExists == notExists, "not-exists counts add up")
	if len(all) == 0 {
		// a bin in which no matching document has a value: there is nothing to take a quantile of
		for _, q := range []float64{0, 0.5, 1} {
			rt.Assert(math.IsNaN(got.Quantile(q)), "a bin without values has no quantile (NaN), whatever the merge order")
		}
		rt.Reach("empty-bin")
	}
	if len(all) > 0 {
		mn, mx := all[0], all[0]
		for _, v := range all[1:] {
			mn, mx = min(mn, v), max(mx, v)
		}
		rt.Assert(got.Min == mn, "min over all samples, whatever the merge order")
		rt.Assert(got.Max == mx, "max over all samples, whatever the merge order")
		if rt.Param("QUANTILES") == 0 {
			rt.Reach("end")
			return
		}
		// quantiles: the merged container holds exactly all samples (exact below 8096 of them)
		rt.Assert(len(got.Samples) == len(all), "the merged container holds every sample")
		for _, v := range all {
			ca, cg := 0, 0
			for _, w := range all {
				if w == v {
					ca++
				}
			}
			for _, w := range got.Samples {
				if w == v {
					cg++
				}
			}
			rt.Assert(ca == cg, "the merged samples are the multiset of all samples")
		}
		qs := []float64{0, 0.25, 0.5, 0.75, 1}
		prev := mn
		for _, q := range qs {
			x := got.Quantile(q)
			in := false
			for _, v := range all {
				if v == x {
					in = true
				}
			}
			rt.Assert(in, "a quantile is one of the values")
			rt.Assert(prev <= x, "quantiles are monotone")
			prev = x
			if q == 0 {
				rt.Assert(x == mn, "quantile 0 = min")
			}
			if q == 1 {
				rt.Assert(x == mx, "quantile 1 = max")
			}
			// nearest-rank reading: at least q of the other values are not above it, at least 1-q not below
			le, ge := 0, 0
			for _, v := range all {
				if v <= x {
					le++
				}
				if v >= x {
					ge++
				}
			}
			n := float64(len(all))
			rt.Assert(float64(le) >= q*(n-1)+0.5 || float64(le) == n, "enough values at or below the quantile")
			rt.Assert(float64(ge) >= (1-q)*(n-1)+0.5 || float64(ge) == n, "enough values at or above the quantile")
		}
		rt.Reach("quantiles")
	}
	rt.Reach("end")
}
