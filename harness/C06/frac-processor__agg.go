package processor

import (
	"context"
	"math"

	"github.com/ozontech/seq-db/frac/lids"
	"github.com/ozontech/seq-db/metric/stopwatch"
	"github.com/ozontech/seq-db/node"
	"github.com/ozontech/seq-db/parser"
	"github.com/ozontech/seq-db/seq"
	rt "github.com/ozontech/seq-db/verifrt"
)

// vAgg is a fraction index with n documents; every document carries at most one token of the
// group field "g" and at most one token of the numeric field "v".
type vAgg struct {
	n       int
	mids    []uint64
	rids    []uint64
	group   []int // per LID: index of the group token or -1
	field   []int // per LID: index of the field token or -1
	ng, nf  int
	numbers []float64 // numeric value of field token k
}

var vAggCur *vAgg

// vParseFloat stands for strconv.ParseFloat on the field tokens: token "vK" has the K-th number.
func vParseFloat(s string) (float64, error) { return vAggCur.numbers[int(s[1]-'0')], nil }
func vParseFloat2(_ func(string, int) (float64, error), s string) (float64, error) {
	return vParseFloat(s)
}

func (x *vAgg) Len() int                 { return x.n + 1 }
func (x *vAgg) GetMID(l seq.LID) seq.MID { return seq.MID(x.mids[l]) }
func (x *vAgg) GetRID(l seq.LID) seq.RID { return seq.RID(x.rids[l]) }
func (x *vAgg) LessOrEqual(l seq.LID, id seq.ID) bool {
	m, r := x.mids[l], x.rids[l]
	return rt.Or(m < uint64(id.MID), rt.And(m == uint64(id.MID), r <= uint64(id.RID)))
}

// tids: 0 = "all documents", 1..ng = group tokens, ng+1..ng+nf = field tokens
func (x *vAgg) GetValByTID(t uint32) []byte {
	switch {
	case t == 0:
		return []byte("all")
	case int(t) <= x.ng:
		return []byte{'g', byte('0' + t - 1)}
	}
	return []byte{'v', byte('0' + int(t) - x.ng - 1)}
}
func (x *vAgg) GetTIDsByTokenExpr(tok parser.Token) ([]uint32, error) {
	var out []uint32
	switch tok.(*parser.Literal).Field {
	case "all":
		out = []uint32{0}
	case "g":
		for i := 0; i < x.ng; i++ {
			out = append(out, uint32(1+i))
		}
	case "v":
		for i := 0; i < x.nf; i++ {
			out = append(out, uint32(1+x.ng+i))
		}
	}
	return out, nil
}
func (x *vAgg) GetLIDsFromTIDs(tids []uint32, _ lids.Counter, minLID, maxLID uint32, order seq.DocsOrder) []node.Node {
	var out []node.Node
	for _, t := range tids {
		var l []uint32
		for lid := uint32(1); lid <= uint32(x.n); lid++ {
			has := t == 0 || (int(t) <= x.ng && x.group[lid] == int(t)-1) || (int(t) > x.ng && x.field[lid] == int(t)-x.ng-1)
			if has && minLID <= lid && lid <= maxLID {
				l = append(l, lid)
			}
		}
		out = append(out, node.NewStatic(l, order.IsReverse()))
	}
	return out
}

// vSame: the very same float64 (bit pattern), so that identical computations compare equal
// without asking the solver to reason about floating-point arithmetic.
func vSame(a, b float64) bool { return math.Float64bits(a) == math.Float64bits(b) }

type vBucket struct {
	name      string
	mid       uint64
	total     int64
	notExists int64
	min, max  float64
	srcs      []int   // field tokens of the bucket in order of first occurrence ...
	cnts      []int64 // ... and how many documents carry each
}

// vSum folds the bucket's values the way the aggregators do (value * count per field token, in
// order of first occurrence; count 1 per document when there is no grouping), so that the
// reference and the implementation build the same floating-point term: IEEE addition is not
// associative, and the solver is not asked to reason about re-ordered sums.
func (b *vBucket) vSum(x *vAgg, perDoc bool) (float64, int) {
	sum := float64(0)
	terms := 0
	for i, f := range b.srcs {
		if perDoc {
			for k := int64(0); k < b.cnts[i]; k++ {
				sum += x.numbers[f] * float64(int64(1))
				terms++
			}
		} else {
			sum += x.numbers[f] * float64(b.cnts[i])
			terms++
		}
	}
	return sum, terms
}

func (b *vBucket) add(f int, perDoc bool) {
	if !perDoc {
		for i := range b.srcs {
			if b.srcs[i] == f {
				b.cnts[i]++
				return
			}
		}
	}
	b.srcs = append(b.srcs, f)
	b.cnts = append(b.cnts, 1)
}

// VerifAggregate: aggregation results equal the values computed directly from the matching
// documents' group / field values.
func VerifAggregate() {
	n, ng, nf := rt.Param("DOCS"), rt.Param("GROUPS"), rt.Param("FIELDS")
	x := &vAgg{n: n, ng: ng, nf: nf, mids: make([]uint64, n+1), rids: make([]uint64, n+1), group: make([]int, n+1), field: make([]int, n+1)}
	vAggCur = x
	fn := rt.Choose(6) // count, unique, sum, min, max, avg
	withGroup := fn <= 1 || rt.Choose(2) == 1
	interval := int64(0)
	if rt.Choose(2) == 1 {
		interval = 16
	}
	for i := 1; i <= n; i++ {
		x.group[i] = rt.Choose(ng+1) - 1
		x.field[i] = rt.Choose(nf+1) - 1
		x.mids[i], x.rids[i] = rt.NondetU64(), rt.NondetU64()
		rt.Assume(rt.And(x.mids[i] >= 1, x.mids[i] < 64))
		if i > 1 {
			rt.Assume(rt.Or(x.mids[i] < x.mids[i-1], rt.And(x.mids[i] == x.mids[i-1], x.rids[i] < x.rids[i-1])))
		}
	}
	for k := 0; k < nf; k++ {
		f := rt.NondetF64()
		rt.Assume(!math.IsNaN(f) && !math.IsInf(f, 0))
		x.numbers = append(x.numbers, f)
	}
	from, to := uint64(0), ^uint64(0)
	order := seq.DocsOrderDesc
	if rt.Param("RANGE") == 1 { // the time-range filter and order are the subject of C02/C14; thorough tier only
		from, to = rt.NondetU64(), rt.NondetU64()
		order = seq.DocsOrder(rt.Choose(2))
	}

	funcs := []seq.AggFunc{seq.AggFuncCount, seq.AggFuncUnique, seq.AggFuncSum, seq.AggFuncMin, seq.AggFuncMax, seq.AggFuncAvg}
	q := AggQuery{Func: funcs[fn], Interval: interval}
	if withGroup {
		q.GroupBy = &parser.Literal{Field: "g", Terms: []parser.Term{{Kind: parser.TermSymbol, Data: "*"}}}
	}
	if fn >= 2 {
		q.Field = &parser.Literal{Field: "v", Terms: []parser.Term{{Kind: parser.TermSymbol, Data: "*"}}}
	}
	params := SearchParams{AST: &parser.ASTNode{Value: &parser.Literal{Field: "all"}}, From: seq.MID(from), To: seq.MID(to), Order: order, AggQ: []AggQuery{q}}
	qpr, err := IndexSearch(context.Background(), params, x, AggLimits{}, stopwatch.New())
	rt.Assert(err == nil, "no error")
	if err != nil {
		return
	}
	rt.Reach("searched")
	agg := qpr.Aggs[0]

	// reference: fold the matching documents directly
	var want []*vBucket
	notExists := int64(0)
	get := func(name string, mid uint64) *vBucket {
		for _, b := range want {
			if b.name == name && b.mid == mid {
				return b
			}
		}
		b := &vBucket{name: name, mid: mid}
		want = append(want, b)
		return b
	}
	for k := 1; k <= n; k++ {
		lid := k
		if order.IsReverse() {
			lid = n + 1 - k
		}
		if !rt.And(from <= x.mids[lid], x.mids[lid] <= to) {
			continue
		}
		mid := uint64(0)
		if interval > 0 {
			mid = x.mids[lid] - x.mids[lid]%uint64(interval)
		}
		g, f := x.group[lid], x.field[lid]
		gname := ""
		if g >= 0 {
			gname = string([]byte{'g', byte('0' + g)})
		}
		switch {
		case fn == 0: // count per group (and time bucket)
			if g >= 0 {
				get(gname, mid).total++
			} else {
				notExists++
			}
		case fn == 1: // unique groups
			if g >= 0 {
				get(gname, 0)
			} else {
				notExists++
			}
		case !withGroup: // numeric field over all matching documents
			b := get("", mid)
			if f < 0 {
				b.notExists++
				break
			}
			v := x.numbers[f]
			if b.total == 0 {
				b.min, b.max = v, v
			} else {
				b.min, b.max = min(b.min, v), max(b.max, v)
			}
			b.add(f, true)
			b.total++
		default: // numeric field per group
			if g < 0 && f < 0 {
				break
			}
			if f < 0 {
				get(gname, 0).notExists++ // documents of the group without the field
				break
			}
			if g < 0 {
				notExists++
				break
			}
			b := get(gname, mid)
			v := x.numbers[f]
			if b.total == 0 {
				b.min, b.max = v, v
			} else {
				b.min, b.max = min(b.min, v), max(b.max, v)
			}
			b.add(f, false)
			b.total++
		}
	}
	if fn == 0 && notExists > 0 { // legacy bucket of the count aggregation
		get("_not_exists", 0).total = notExists
	}
	rt.Assert(agg.NotExists == notExists, "not-exists count")
	rt.Assert(len(agg.SamplesByBin) == len(want), "number of buckets")
	args := seq.AggregateArgs{Func: funcs[fn]}
	for _, w := range want {
		hist := agg.SamplesByBin[seq.AggBin{MID: seq.MID(w.mid), Token: w.name}]
		rt.Assert(hist != nil, "one bucket per group and time interval")
		if hist == nil {
			continue
		}
		b := agg.VerifBucket(seq.AggBin{MID: seq.MID(w.mid), Token: w.name}, hist, args) // the value handed to the client
		rt.Assert(b.NotExists == w.notExists, "bucket not-exists count")
		switch {
		case fn <= 1:
			rt.Assert(b.Value == float64(w.total), "count")
		case w.total == 0:
			rt.Assert(math.IsNaN(b.Value), "no value in the bucket")
		case fn == 3:
			rt.Assert(vSame(b.Value, w.min), "min")
		case fn == 4:
			rt.Assert(vSame(b.Value, w.max), "max")
		case fn == 2 || fn == 5:
			sum, terms := w.vSum(x, !withGroup)
			if terms > 2 && !rt.Symbolic() {
				break // natively the map order of the aggregator is random: only commutativity is safe
			}
			if fn == 2 {
				rt.Assert(vSame(b.Value, sum), "sum")
			} else {
				rt.Assert(vSame(b.Value, sum/float64(w.total)), "avg")
			}
		}
	}
	rt.Reach("end")
}
