package storeapi

import (
	pb "github.com/ozontech/seq-db/pkg/storeapi"
	"github.com/ozontech/seq-db/seq"
)

// VerifBuildSearchResponse exposes the store's conversion of a partial result to the wire form.
func VerifBuildSearchResponse(q *seq.QPR) *pb.SearchResponse { return buildSearchResponse(q) }
