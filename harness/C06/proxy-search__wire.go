package search

import (
	"github.com/ozontech/seq-db/seq"
	"github.com/ozontech/seq-db/storeapi"
	rt "github.com/ozontech/seq-db/verifrt"
)

// VerifWireRoundTrip: a partial result that a store sends (storeapi.buildSearchResponse) arrives at
// the proxy (responseToQPR) as the same partial result: IDs, total, histogram and every aggregation
// bin with its time bucket, counts and sums - also for time buckets that are not whole seconds.
func VerifWireRoundTrip() {
	mids := []seq.MID{0, 999, 1500, 2000, 60000, 1700000000123}
	q := &seq.QPR{Total: uint64(rt.NondetU32())}
	for i := 0; i < 2; i++ {
		q.IDs = append(q.IDs, seq.IDSource{ID: seq.ID{MID: seq.MID(rt.NondetU64()), RID: seq.RID(rt.NondetU64())}, Hint: "h"})
	}
	q.Histogram = map[seq.MID]uint64{mids[rt.Choose(len(mids))]: uint64(rt.NondetU32())}
	agg := seq.AggregatableSamples{SamplesByBin: map[seq.AggBin]*seq.SamplesContainer{}, NotExists: int64(rt.NondetU8())}
	type binv struct {
		bin seq.AggBin
		c   *seq.SamplesContainer
	}
	var bins []binv
	for i := 0; i < 2; i++ {
		b := seq.AggBin{MID: mids[rt.Choose(len(mids))], Token: []string{"ga", "gb"}[rt.Choose(2)]}
		if _, dup := agg.SamplesByBin[b]; dup {
			continue
		}
		c := &seq.SamplesContainer{Min: float64(rt.NondetU8()), Max: float64(rt.NondetU8()), Sum: float64(rt.NondetU8()), Total: int64(rt.NondetU8()), NotExists: int64(rt.NondetU8())}
		agg.SamplesByBin[b] = c
		bins = append(bins, binv{b, c})
	}
	q.Aggs = []seq.AggregatableSamples{agg}

	resp := storeapi.VerifBuildSearchResponse(q)
	got := responseToQPR(resp, 7, false)
	rt.Reach("converted")

	rt.Assert(got.Total == q.Total, "total survives the wire")
	rt.Assert(len(got.IDs) == len(q.IDs), "ids survive the wire")
	if len(got.IDs) == len(q.IDs) {
		for i := range q.IDs {
			rt.Assert(got.IDs[i].ID == q.IDs[i].ID && got.IDs[i].Source == 7 && got.IDs[i].Hint == q.IDs[i].Hint, "each id arrives with its hint and the source of its store")
		}
	}
	rt.Assert(len(got.Histogram) == len(q.Histogram), "histogram buckets survive the wire")
	for k, v := range q.Histogram {
		rt.Assert(got.Histogram[k] == v, "histogram bucket survives the wire")
	}
	rt.Assert(len(got.Aggs) == 1, "aggregations survive the wire")
	if len(got.Aggs) != 1 {
		return
	}
	rt.Assert(got.Aggs[0].NotExists == agg.NotExists, "not-exists count survives the wire")
	rt.Assert(len(got.Aggs[0].SamplesByBin) == len(bins), "every aggregation bin arrives as a bin of its own")
	for _, b := range bins {
		g := got.Aggs[0].SamplesByBin[b.bin]
		rt.Assert(g != nil, "an aggregation bin arrives under its own time bucket and token")
		if g != nil {
			rt.Assert(g.Total == b.c.Total && g.NotExists == b.c.NotExists, "counts of the bin survive the wire")
			rt.Assert(g.Min == b.c.Min && g.Max == b.c.Max && g.Sum == b.c.Sum, "min, max and sum of the bin survive the wire")
		}
	}
	rt.Reach("end")
}
