package fracmanager

import (
	"context"
	"sync"

	"github.com/ozontech/seq-db/frac"
	"github.com/ozontech/seq-db/seq"
	rt "github.com/ozontech/seq-db/verifrt"
)

type vRFrac struct {
	info     *frac.Info
	suicided bool
}

func (f *vRFrac) Info() *frac.Info                    { return f.info }
func (f *vRFrac) IsIntersecting(_, _ seq.MID) bool    { return true }
func (f *vRFrac) Contains(seq.MID) bool               { return true }
func (f *vRFrac) Suicide()                            { f.suicided = true }
func (f *vRFrac) DataProvider(context.Context) (frac.DataProvider, func()) {
	panic("unused")
}

// VerifRetention: size-based retention removes whole fractions, oldest first, and stops as soon
// as the total size is under the limit.
func VerifRetention() {
	n := rt.Param("FRACS")
	fm := &FracManager{config: &Config{}, fracCache: NewSealedFracCache("/data/.frac-cache")}
	fm.mature.Store(true) // the immature flag file is not the subject
	fm.config.TotalSize = uint64(rt.NondetU32())
	fr := make([]*vRFrac, n)
	var total uint64
	for i := range fr {
		fr[i] = &vRFrac{info: &frac.Info{Path: string([]byte{'f', byte('0' + i)}), DocsOnDisk: uint64(rt.NondetU32()), IndexOnDisk: uint64(rt.NondetU32()), CreationTime: uint64(i + 1)}}
		fm.fracs = append(fm.fracs, &fracRef{instance: fr[i]})
		total += fr[i].info.FullSize()
	}
	wg := &sync.WaitGroup{}
	fm.shrinkSizes(wg)
	wg.Wait()
	rt.Reach("shrunk")

	// removed fractions form a prefix (oldest first)
	k := 0
	for k < n && fr[k].suicided {
		k++
	}
	for i := k; i < n; i++ {
		rt.Assert(!fr[i].suicided, "only the oldest fractions are removed (a prefix of the list)")
	}
	rt.Assert(len(fm.fracs) == n-k, "removed fractions leave the list, the others stay")
	var removed uint64
	for i := 0; i < k; i++ {
		removed += fr[i].info.FullSize()
	}
	rt.Assert(rt.Or(total-removed <= fm.config.TotalSize, k == n), "after retention the total size is under the limit")
	if k > 0 {
		rt.Assert(total-removed+fr[k-1].info.FullSize() > fm.config.TotalSize, "retention stops as soon as the size is under the limit")
	}
	// the age of the oldest data the store still holds (what makes a hot store answer "this range is
	// older than my retention, ask the long-term stores") is that of the oldest *surviving* fraction
	if k < n {
		rt.Assert(fm.OldestCT.Load() == fr[k].info.CreationTime, "the store's oldest creation time is the oldest surviving fraction's")
	}
	rt.Reach("end")
}
