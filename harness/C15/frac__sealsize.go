package frac

import (
	"io/fs"
	"os"
	"time"

	"github.com/ozontech/seq-db/cache"
	"github.com/ozontech/seq-db/disk"
	rt "github.com/ozontech/seq-db/verifrt"
)

// ---- the file layer of frac.Seal / Sealed.openIndex over the in-memory index file vsMem -------------

var (
	vsMem   *vMem
	vsNames = map[*os.File]string{}
	vsDocs  int64 // size of the documents file
)

type vsInfo struct {
	name string
	size int64
}

func (i vsInfo) Name() string       { return i.name }
func (i vsInfo) Size() int64        { return i.size }
func (i vsInfo) Mode() fs.FileMode  { return 0o644 }
func (i vsInfo) ModTime() time.Time { return time.Time{} }
func (i vsInfo) IsDir() bool        { return false }
func (i vsInfo) Sys() any           { return nil }

func vsHandle(name string) *os.File { h := new(os.File); vsNames[h] = name; return h }

func vsCreate(name string) (*os.File, error)             { return vsHandle(name), nil }
func vsSeek(_ *os.File, off int64, _ int) (int64, error) { return off, nil } // vsMem starts behind the 16 header bytes
func vsSync(*os.File) error                              { return nil }
func vsRename(h *os.File, newName string) error          { vsNames[h] = newName; return nil }
func vsClose(*os.File) error                             { return nil }
func vsReopen(name string) (*os.File, error)             { return vsHandle(name), nil }
func vsOpen(name string) (*os.File, error)               { return vsHandle(name), nil }
func vsNoSync(string)                                    {}
func vsStat(h *os.File) (os.FileInfo, error) {
	n := vsNames[h]
	if len(n) > 6 && n[len(n)-6:] == ".index" {
		return vsInfo{n, int64(len(vsMem.data))}, nil
	}
	return vsInfo{n, vsDocs}, nil
}

// vInfoSave / vInfoLoad stand for Info.Save / Info.Load (encoding/json): an identity store of the
// persisted struct - every field of Info is exported and tagged, so the JSON form carries them all.
var vInfoStore []Info

func vInfoSave(i *Info) []byte {
	vInfoStore = append(vInfoStore, *i)
	return []byte{'{', byte(len(vInfoStore) - 1), '}'}
}

func vInfoLoad(dst *Info, data []byte) {
	if len(data) != 3 || data[0] != '{' || int(data[1]) >= len(vInfoStore) {
		panic("info block is not what the sealer wrote")
	}
	*dst = vInfoStore[data[1]]
}

// VerifSealSizes: the sizes a sealed fraction reports - the numbers size-based retention adds up -
// are those of the files it has (documents + index, no meta file), both for the fraction handed
// over by the sealer and for the one a restart loads from the index file's header alone.
func VerifSealSizes() {
	vConcrete = true
	n := rt.Param("DOCS")
	f, _ := vBuildActive(n, 2, 2)
	f.BaseFileName = "/data/seq-db-01"
	f.Config = &Config{SkipSortDocs: true}
	docsSize := rt.NondetU64() & (1<<40 - 1)
	metaSize := rt.NondetU64() & (1<<40 - 1)
	f.info.DocsOnDisk, f.info.MetaOnDisk = docsSize, metaSize
	vsDocs = int64(docsSize)
	from, to, total := f.info.From, f.info.To, f.info.DocsTotal
	rt.Reach("ingested")

	vsMem = &vMem{data: make([]byte, 16), pos: 16}
	vInfoStore = nil
	disk.VerifReadAt = vsMem.readAt
	pre, err := Seal(f, SealParams{})
	rt.Assert(err == nil, "sealing succeeds")
	if err != nil {
		return
	}
	rt.Reach("sealed")
	indexSize := uint64(len(vsMem.data))

	check := func(i *Info, when string) {
		rt.Assert(i.MetaOnDisk == 0, "a sealed fraction has no meta file and counts no meta bytes "+when)
		rt.Assert(i.IndexOnDisk == indexSize, "the index size is the size of the index file "+when)
		rt.Assert(i.DocsOnDisk == docsSize, "the documents size is kept "+when)
		rt.Assert(i.FullSize() == docsSize+indexSize, "retention counts the fraction with the size of the files it has "+when)
		rt.Assert(rt.And(i.From == from, i.To == to) && i.DocsTotal == total, "time borders and document count are kept "+when)
	}
	rl := disk.NewReadLimiter(1, nil)
	s1 := NewSealedPreloaded(f.BaseFileName, pre, rl, vIndexCache(), cache.NewCache[[]byte](nil, nil), &Config{})
	check(s1.info, "right after sealing")

	// restart without a fraction cache entry: the info is read from the header of the index file
	s2 := NewSealed(f.BaseFileName, rl, vIndexCache(), cache.NewCache[[]byte](nil, nil), nil, &Config{})
	check(s2.info, "after a restart")
	rt.Reach("end")
}
