package fracmanager

import (
	"context"

	"github.com/ozontech/seq-db/cache"
	"github.com/ozontech/seq-db/frac"
	"github.com/ozontech/seq-db/frac/lids"
	"github.com/ozontech/seq-db/frac/token"
	"github.com/ozontech/seq-db/seq"
	rt "github.com/ozontech/seq-db/verifrt"
)

var vServedActive, vServedSealed []string

func vNewActive(base string) *frac.Active { vServedActive = append(vServedActive, base); return nil }
func vNoFracCache(string) *sealedFracCache { return nil }
func vLoadSealed(_ *sealedFracCache, info *fracInfo) *frac.Sealed {
	vServedSealed = append(vServedSealed, info.base)
	if i, ok := vSealedInfos[info.base]; ok {
		// (what fractionProvider.NewSealed does with an info from the fraction cache)
		return frac.NewSealed(info.base, nil, vIndexCache(), cache.NewCache[[]byte](nil, nil), i, &frac.Config{})
	}
	return nil
}

// infos of the sealed fractions of VerifLoadOrder, by base file name
var vSealedInfos map[string]*frac.Info

// VerifLoadOrder: the list of fractions the loader hands to the fraction manager is in creation
// order (the order of the fraction names), whatever time ranges their documents cover - size-based
// retention removes the head of that list, which must be the oldest fraction.
func VerifLoadOrder() {
	fs := frac.VerifFS
	fs.Files, fs.Unsynced, fs.Ops, fs.CrashAt, fs.FailAt, fs.Failed, fs.Opened, fs.SealedDocs = map[string]bool{}, map[string]bool{}, 0, 0, 0, "", "", ""
	vServedActive, vServedSealed = nil, nil
	vSealedInfos = map[string]*frac.Info{}
	n := rt.Param("FRACS")
	var bases []string
	for i := 0; i < n; i++ {
		base := "/data/seq-db-0" + string([]byte{byte('1' + i)})
		bases = append(bases, base)
		fs.Files[base+".index"] = true
		if rt.Choose(2) == 0 {
			fs.Files[base+".sdocs"] = true
		} else {
			fs.Files[base+".docs"] = true
		}
		// documents of any time range: a late-created fraction may hold old documents
		from, to := seq.MID(rt.NondetU64()), seq.MID(rt.NondetU64())
		rt.Assume(from <= to)
		vSealedInfos[base] = &frac.Info{Path: base, IndexOnDisk: 1, DocsTotal: 1, From: from, To: to, CreationTime: uint64(1000 * (i + 1))}
	}
	l := NewLoader(&Config{DataDir: "/data"}, nil, NewSealedFracCache("/data/.frac-cache"))
	fracs, _, err := l.load(context.Background())
	rt.Assert(err == nil, "the store starts")
	rt.Reach("started")
	rt.Assert(len(fracs) == n, "every fraction is loaded")
	if len(fracs) == n {
		for i := range fracs {
			rt.Assert(fracs[i].instance.Info().Path == bases[i], "fractions are listed in creation order: retention removes the oldest first")
		}
	}
	rt.Reach("end")
}

const vBase = "/data/seq-db-01"

// vRun runs op until it returns or the injected crash kills the process.
func vRun(op func()) (crashed bool) {
	defer func() {
		if r := recover(); r != nil {
			if _, ok := r.(frac.VCrash); !ok {
				panic(r)
			}
			crashed = true
		}
	}()
	op()
	return false
}

func vIndexCache() *frac.IndexCache {
	return &frac.IndexCache{
		Registry:   cache.NewCache[[]byte](nil, nil),
		MIDs:       cache.NewCache[[]byte](nil, nil),
		RIDs:       cache.NewCache[[]byte](nil, nil),
		Params:     cache.NewCache[[]uint64](nil, nil),
		Tokens:     cache.NewCache[*token.CacheEntry](nil, nil),
		TokenTable: cache.NewCache[token.Table](nil, nil),
		LIDs:       cache.NewCache[*lids.Chunks](nil, nil),
	}
}

// VerifStartup: from every state a crash can leave behind while a fraction is created or
// deleted, the loader starts (no Fatal, no panic) and the fraction is either served with the
// files that form it, or all of its files are gone.
func VerifStartup() {
	fs := frac.VerifFS
	fs.Files, fs.Unsynced, fs.Ops, fs.CrashAt, fs.FailAt, fs.Failed, fs.Opened, fs.SealedDocs = map[string]bool{}, map[string]bool{}, 0, 0, 0, "", "", "" // harness state is process-global: start clean
	vServedActive, vServedSealed = nil, nil
	scenario := rt.Choose(4)
	faults := false
	var op func()
	switch scenario {
	case 0: // creation of an active fraction
		op = func() { frac.NewActive(vBase, nil, nil, cache.NewCache[[]byte](nil, nil), cache.NewCache[[]byte](nil, nil), &frac.Config{}) }
	case 1: // deletion of an active fraction (retention reaches a fraction that was never sealed)
		a := frac.NewActive(vBase, nil, nil, cache.NewCache[[]byte](nil, nil), cache.NewCache[[]byte](nil, nil), &frac.Config{})
		op = func() { a.Suicide() }
	case 3: // sealing: proxyFrac.Seal = frac.Seal (sorted docs file, then index file, each written under a temporary name and renamed), then Active.Release (meta and docs removed)
		cfg := &frac.Config{SkipSortDocs: rt.Choose(2) == 1}
		fs.SealedDocs = ".sdocs"
		if cfg.SkipSortDocs {
			fs.SealedDocs = ".docs"
		}
		fp := &fractionProvider{config: cfg, cacheProvider: NewCacheMaintainer(1<<20, 1<<20, nil)}
		a := fp.NewActive(vBase)
		frac.VerifMarkNonEmpty(a)
		pf := &proxyFrac{active: a, fp: fp}
		faults = true
		op = func() {
			_, err := pf.Seal(frac.SealParams{})
			if fs.Failed != "" && fs.Failed != "remove" {
				// (FracManager.seal ends the process on this error: what follows is a restart)
				rt.Assert(err != nil, "a failing create, sync or rename fails the sealing")
				rt.Reach("seal-failed")
				return
			}
			rt.Assert(err == nil, "sealing succeeds when no operation of frac.Seal fails")
			rt.Reach("sealed-and-released")
		}
	default: // deletion of a sealed fraction, with plain or sorted docs
		if rt.Choose(2) == 0 {
			fs.Files[vBase+".docs"] = true
			fs.SealedDocs = ".docs"
		} else {
			fs.Files[vBase+".sdocs"] = true
			fs.SealedDocs = ".sdocs"
		}
		fs.Files[vBase+".index"] = true
		s := frac.NewSealed(vBase, nil, vIndexCache(), cache.NewCache[[]byte](nil, nil), &frac.Info{Path: vBase, IndexOnDisk: 1}, &frac.Config{})
		op = func() { s.Suicide() }
	}
	fs.Ops = 0
	fs.CrashAt = rt.NondetInt() // the crash point is a solver variable: every operation forks on "dies here"
	rt.Assume(rt.And(1 <= fs.CrashAt, fs.CrashAt <= rt.Param("MAXOPS")))
	if faults { // sealing: additionally one operation (create, fsync, rename, remove) may fail with an I/O error
		fs.FailAt = rt.NondetInt()
		rt.Assume(rt.And(0 <= fs.FailAt, fs.FailAt <= rt.Param("MAXOPS")))
	}
	crashed := vRun(op)
	if !crashed {
		rt.Assert(fs.Ops < fs.CrashAt, "no crash: the crash index lies beyond the last operation")
	}
	rt.Reach("crashed-or-done")
	before := fs.List()

	// restart: what was never fsynced did not survive
	fs.CrashAt, fs.FailAt = 0, 0
	torn := map[string]bool{}
	for n := range fs.Unsynced {
		torn[n] = true
	}
	l := NewLoader(&Config{DataDir: "/data"}, nil, NewSealedFracCache("/data/.frac-cache"))
	_, _, err := l.load(context.Background())
	rt.Assert(err == nil, "the store starts")
	rt.Reach("started")

	after := fs.List()
	served := len(vServedActive) + len(vServedSealed)
	rt.Assert(served <= 1, "a fraction is served once")
	has := func(suffix string) bool { return fs.Files[vBase+suffix] }
	if len(vServedActive) == 1 {
		rt.Assert(has(".docs") && has(".meta"), "an active fraction is served only with its docs and meta files")
	}
	if len(vServedSealed) == 1 {
		rt.Assert(has(".index") && (has(".docs") || has(".sdocs")), "a sealed fraction is served only with its index and docs files")
		if has(".index") && (has(".docs") || has(".sdocs")) {
			// which documents file will the served fraction read? (the real Sealed.openDocs prefers .docs)
			rt.Assert(frac.VerifDocsFileOf(vBase) == vBase+fs.SealedDocs, "a sealed fraction reads the documents file its index was written for")
			rt.Assert(!torn[vBase+".index"] && !torn[vBase+fs.SealedDocs], "a sealed fraction is served only from files that were fsynced before they were published")
		}
	}
	if served == 0 {
		rt.Assert(len(after) == 0, "a fraction that is not served is completely gone")
	}
	for _, n := range before {
		if len(n) > 4 && n[len(n)-4:] == ".del" {
			rt.Assert(len(after) == 0, "a deletion that began on disk is finished at start-up")
		}
	}
	rt.Reach("end")
}
