package frac

import (
	"io/fs"
	"os"
	"sort"
	"time"
)

// VFS is the harness's file system: a set of names.  The CrashAt-th mutating operation is not
// performed; the process dies there (panic VCrash).
type VFS struct {
	Files   map[string]bool
	Ops     int
	CrashAt int
}

type VCrash struct{}

var VerifFS = &VFS{Files: map[string]bool{}}

func (v *VFS) mut() {
	v.Ops++
	if v.Ops == v.CrashAt {
		panic(VCrash{})
	}
}

type vFileInfo struct{ name string }

func (i vFileInfo) Name() string       { return i.name }
func (i vFileInfo) Size() int64        { return 0 }
func (i vFileInfo) Mode() fs.FileMode  { return 0o644 }
func (i vFileInfo) ModTime() time.Time { return time.Time{} }
func (i vFileInfo) IsDir() bool        { return false }
func (i vFileInfo) Sys() any           { return nil }

func (v *VFS) OpenFile(name string) (*os.File, error) {
	if !v.Files[name] {
		v.mut()
		v.Files[name] = true
	}
	return nil, nil
}
func (v *VFS) Stat(name string) (os.FileInfo, error) { return vFileInfo{name}, nil }
func (v *VFS) Rename(a, b string) error {
	if !v.Files[a] {
		return fs.ErrNotExist
	}
	v.mut()
	delete(v.Files, a)
	v.Files[b] = true
	return nil
}
func (v *VFS) Remove(a string) error {
	if !v.Files[a] {
		return fs.ErrNotExist
	}
	v.mut()
	delete(v.Files, a)
	return nil
}
func (v *VFS) List() []string {
	var l []string
	for n := range v.Files {
		l = append(l, n)
	}
	sort.Strings(l)
	return l
}
