package frac

import (
	"io/fs"
	"os"
	"sort"
	"time"
)

// VFS is the harness's file system: a set of names.  The CrashAt-th mutating operation is not
// performed; the process dies there (panic VCrash).
type VFS struct {
	Files      map[string]bool
	Unsynced   map[string]bool // created but not yet fsynced: its content does not survive a crash
	Ops        int
	CrashAt    int
	FailAt     int    // the FailAt-th operation (counting fsyncs) fails with an I/O error instead
	Failed     string // kind of the operation that failed
	Opened     string // last file opened for reading (Open)
	SealedDocs string // suffix of the docs file the fraction's index was written for (.docs or .sdocs)
}

type VCrash struct{}

var VerifFS = &VFS{Files: map[string]bool{}, Unsynced: map[string]bool{}}

type vIOErr struct{}

func (vIOErr) Error() string { return "injected I/O error" }

// op counts one operation: the process dies at the crash index, the operation fails at the fault index.
func (v *VFS) op(kind string) error {
	v.Ops++
	if v.Ops == v.CrashAt {
		panic(VCrash{})
	}
	if v.Ops == v.FailAt {
		v.Failed = kind
		return vIOErr{}
	}
	return nil
}

func (v *VFS) mut() {
	if err := v.op("open"); err != nil {
		panic("fault injection is not used for this operation")
	}
}

type vFileInfo struct{ name string }

func (i vFileInfo) Name() string       { return i.name }
func (i vFileInfo) Size() int64        { return 0 }
func (i vFileInfo) Mode() fs.FileMode  { return 0o644 }
func (i vFileInfo) ModTime() time.Time { return time.Time{} }
func (i vFileInfo) IsDir() bool        { return false }
func (i vFileInfo) Sys() any           { return nil }

func (v *VFS) OpenFile(name string) (*os.File, error) {
	if !v.Files[name] {
		v.mut()
		v.Files[name] = true
	}
	return nil, nil
}
func (v *VFS) Stat(name string) (os.FileInfo, error) { return vFileInfo{name}, nil }
func (v *VFS) Rename(a, b string) error {
	if !v.Files[a] {
		return fs.ErrNotExist
	}
	if err := v.op("rename"); err != nil {
		return err
	}
	delete(v.Files, a)
	v.Files[b] = true
	if v.Unsynced[a] {
		delete(v.Unsynced, a)
		v.Unsynced[b] = true
	}
	return nil
}
func (v *VFS) Remove(a string) error {
	if !v.Files[a] {
		return fs.ErrNotExist
	}
	if err := v.op("remove"); err != nil {
		return err
	}
	delete(v.Files, a)
	delete(v.Unsynced, a)
	return nil
}
func (v *VFS) List() []string {
	var l []string
	for n := range v.Files {
		l = append(l, n)
	}
	sort.Strings(l)
	return l
}

// ---- file handles for the sealing scenario: a handle is a distinct *os.File the model maps to a name

var vHandles = map[*os.File]string{}

func (v *VFS) Create(name string) (*os.File, error) {
	if err := v.op("create"); err != nil {
		return nil, err
	}
	v.Files[name] = true
	v.Unsynced[name] = true
	h := new(os.File)
	vHandles[h] = name
	return h, nil
}
func (v *VFS) Seek(h *os.File, off int64, whence int) (int64, error) { return off, nil }
func (v *VFS) Sync(h *os.File) error {
	if err := v.op("sync"); err != nil {
		return err
	}
	delete(v.Unsynced, vHandles[h])
	return nil
}
func (v *VFS) Close(h *os.File) error                                 { return nil }
func (v *VFS) RenameFile(h *os.File, newName string) error {
	err := v.Rename(vHandles[h], newName)
	if err == nil {
		vHandles[h] = newName
	}
	return err
}
func (v *VFS) Reopen(name string) (*os.File, error) {
	if !v.Files[name] {
		return nil, fs.ErrNotExist
	}
	h := new(os.File)
	vHandles[h] = name
	return h, nil
}
func (v *VFS) StatFile(h *os.File) (os.FileInfo, error) { return vFileInfo{vHandles[h]}, nil }

// vSkipWrite stands for the writing of file content, which the name-level model does not hold.
func vSkipWrite(args ...any) error { return nil }

// VerifMarkNonEmpty makes a freshly created active fraction sealable (Seal refuses an empty one).
func VerifMarkNonEmpty(a *Active) {
	a.info.From, a.info.To, a.info.DocsTotal = 1, 1, 1
}

// Open is os.Open over the model.
func (v *VFS) Open(name string) (*os.File, error) {
	if !v.Files[name] {
		return nil, fs.ErrNotExist
	}
	v.Opened = name
	h := new(os.File)
	vHandles[h] = name
	return h, nil
}

// VerifDocsFileOf runs the real Sealed.openDocs for the fraction and reports the file it opens.
func VerifDocsFileOf(base string) string {
	s := &Sealed{BaseFileName: base}
	VerifFS.Opened = ""
	s.openDocs()
	return VerifFS.Opened
}

func vNoSync(string) {}

// Glob lists the model's files (the loader globs the whole data directory).
func (v *VFS) Glob(string) ([]string, error) { return v.List(), nil }
