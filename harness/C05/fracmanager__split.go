package fracmanager

import (
	"context"

	"github.com/ozontech/seq-db/frac"
	"github.com/ozontech/seq-db/frac/processor"
	"github.com/ozontech/seq-db/seq"
	rt "github.com/ozontech/seq-db/verifrt"
)

// vSFrac is a fraction that answers Search by the single-fraction contract decided in C02:
// its documents inside [From,To], in the requested order, cut to Limit; Total when requested.
type vSFrac struct {
	info *frac.Info
	ids  []seq.ID // descending
}

func (f *vSFrac) Info() *frac.Info { return f.info }
func (f *vSFrac) IsIntersecting(from, to seq.MID) bool {
	return f.info.IsIntersecting(from, to) // the real border check
}
func (f *vSFrac) Contains(mid seq.MID) bool { return rt.And(f.info.From <= mid, mid <= f.info.To) }
func (f *vSFrac) DataProvider(context.Context) (frac.DataProvider, func()) {
	return f, func() {}
}
func (f *vSFrac) Suicide()                           {}
func (f *vSFrac) Fetch([]seq.ID) ([][]byte, error) { panic("unused") }
func (f *vSFrac) Search(p processor.SearchParams) (*seq.QPR, error) {
	q := &seq.QPR{}
	if p.HistInterval > 0 {
		q.Histogram = map[seq.MID]uint64{}
	}
	n := len(f.ids)
	total := 0
	for k := 0; k < n; k++ {
		id := f.ids[k]
		if p.Order.IsReverse() {
			id = f.ids[n-1-k]
		}
		if rt.And(p.From <= id.MID, id.MID <= p.To) {
			total++
			if len(q.IDs) < p.Limit {
				q.IDs = append(q.IDs, seq.IDSource{ID: id})
			}
			if p.HistInterval > 0 {
				q.Histogram[id.MID-id.MID%seq.MID(p.HistInterval)]++
			}
		}
	}
	if p.WithTotal {
		q.Total = uint64(total)
	}
	return q, nil
}

// VerifSplit: the answer of Searcher.SearchDocs does not depend on how the documents are split
// over fractions (overlapping ranges included) nor on FractionsPerIteration.
func VerifSplit() {
	n := rt.Param("DOCS")
	nf := rt.Param("FRACS")
	dup := rt.Param("DUP")

	// global documents, strictly descending
	docs := make([]seq.ID, n)
	for i := range docs {
		docs[i] = seq.ID{MID: seq.MID(rt.NondetU64()), RID: seq.RID(rt.NondetU64())}
		if i > 0 {
			rt.Assume(seq.Less(docs[i], docs[i-1]))
		}
	}
	// assignment: any split; with DUP=1 one document may also live in a second fraction
	fr := make([]*vSFrac, nf)
	for i := range fr {
		fr[i] = &vSFrac{info: &frac.Info{Path: string([]byte{'f', byte('0' + i)}), From: ^seq.MID(0), To: 0}}
	}
	hasDup := false
	for i, d := range docs {
		a := 0
		if rt.Param("SHAPE") == 1 {
			// one fraction spans the others: it holds the newest and the oldest document (a stray
			// late document in an old fraction), the documents in between sit one per further fraction
			if i > 0 && i < n-1 {
				a = 1 + (i-1)%(nf-1)
			}
		} else {
			a = rt.Choose(nf)
		}
		fr[a].ids = append(fr[a].ids, d)
		if dup == 1 && i == 0 && nf > 1 && rt.Choose(2) == 1 {
			b := (a + 1) % nf
			fr[b].ids = append(fr[b].ids, d)
			hasDup = true
		}
	}
	var list List
	for _, f := range fr {
		for _, id := range f.ids {
			f.info.From = min(f.info.From, id.MID)
			f.info.To = max(f.info.To, id.MID)
		}
		f.info.DocsTotal = uint32(len(f.ids))
		list = append(list, f)
	}

	from, to := seq.MID(rt.NondetU64()), seq.MID(rt.NondetU64())
	limit := rt.NondetInt()
	rt.Assume(rt.And(0 <= limit, limit <= n+1))
	order := seq.DocsOrder(rt.NondetU8())
	rt.Assume(order <= 1)
	withTotal := rt.NondetBool()
	perIter := rt.Choose(nf + 1)
	hist := uint64(0)
	if rt.Param("HIST") == 1 {
		hist = uint64(16 * rt.Choose(2))
	}

	s := NewSearcher(2, SearcherCfg{FractionsPerIteration: perIter})
	qpr, err := s.SearchDocs(context.Background(), list, processor.SearchParams{From: from, To: to, Limit: limit, Order: order, WithTotal: withTotal, HistInterval: hist})
	rt.Assert(err == nil, "no error")
	rt.Reach("searched")

	var want []seq.ID
	for k := 0; k < n; k++ {
		id := docs[k]
		if order.IsReverse() {
			id = docs[n-1-k]
		}
		if rt.And(from <= id.MID, id.MID <= to) {
			want = append(want, id)
		}
	}
	total := len(want)
	if len(want) > limit {
		want = want[:limit]
	}
	rt.Assert(len(qpr.IDs) == len(want), "same number of ids as one fraction holding everything")
	if len(qpr.IDs) == len(want) {
		for i := range want {
			rt.Assert(qpr.IDs[i].ID == want[i], "same i-th id (each document listed once)")
		}
	}
	if withTotal && !hasDup {
		rt.Assert(qpr.Total == uint64(total), "same total")
	}
	if hist > 0 && !hasDup {
		// every document in range counted once in the bucket of its timestamp, whatever the split
		// (a document living in two fractions is only required to be *listed* once: repetitions can be
		// deducted from total and histogram only among the returned ids)
		var all []seq.ID
		for _, id := range docs {
			if rt.And(from <= id.MID, id.MID <= to) {
				all = append(all, id)
			}
		}
		for _, a := range all {
			ba := a.MID - a.MID%seq.MID(hist)
			cnt := uint64(0)
			for _, b := range all {
				if b.MID-b.MID%seq.MID(hist) == ba {
					cnt++
				}
			}
			rt.Assert(qpr.Histogram[ba] == cnt, "same histogram bucket as one fraction holding everything")
		}
		sum := uint64(0)
		for _, v := range qpr.Histogram {
			sum += v
		}
		rt.Assert(sum == uint64(len(all)), "the histogram counts every document in range once")
		rt.Reach("histogram")
	}
	rt.Reach("end")
}
