package proxyapi

import (
	"io"

	rt "github.com/ozontech/seq-db/verifrt"
)

// vPieces delivers the body in pieces of at most `max` bytes per Read.
type vPieces struct {
	data []byte
	max  int
}

func (p *vPieces) Read(b []byte) (int, error) {
	if len(p.data) == 0 {
		return 0, io.EOF
	}
	n := len(b)
	if n > p.max {
		n = p.max
	}
	if n > len(p.data) {
		n = len(p.data)
	}
	copy(b, p.data[:n])
	p.data = p.data[n:]
	return n, nil
}

// VerifFraming: the bulk body reader returns exactly the document lines that fit the size
// limit, byte-identical and in order; over-size lines are skipped without disturbing their
// neighbours, however the body is cut into network reads.
func VerifFraming() {
	const limit = 16 // max document size = bufio's minimal buffer: a line fits iff line+"\n" <= 16 bytes
	pairs := rt.Param("PAIRS")
	lens := []int{1, 14, 15, 16, 17, 33}
	var body []byte
	var want [][]byte
	for i := 0; i < pairs; i++ {
		body = append(body, []byte("\"index\"\n")...)
		l := lens[rt.Choose(len(lens))]
		doc := rt.NondetBytes(l)
		for _, b := range doc {
			rt.Assume(rt.And(b != '\n', b != '\r'))
		}
		body = append(body, doc...)
		body = append(body, '\n')
		if l+1 <= limit {
			want = append(want, doc)
		}
	}
	pieces := []int{1, 7, 16, 1 << 20}
	rd := acquireESBulkDocReader(&vPieces{data: body, max: pieces[rt.Choose(len(pieces))]}, limit)
	for i := 0; ; i++ {
		doc, err := rd.ReadDoc()
		rt.Assert(err == nil, "a well-framed body is read without error")
		if err != nil {
			return
		}
		if doc == nil {
			rt.Assert(i == len(want), "every document within the size limit is returned")
			break
		}
		rt.Assert(i < len(want), "no extra document")
		if i >= len(want) {
			return
		}
		rt.Assert(string(doc) == string(want[i]), "document bytes unchanged, in order")
		rt.Assert(cap(doc) == len(doc), "returned slice cannot grow into the reader's buffer")
	}
	rt.Reach("end")
}
