package disk

// vNoCompress stands for zstd.CompressLevel: the payload is stored as it is.
func vNoCompress(_ func([]byte, []byte, int) []byte, src, dst []byte, _ int) []byte {
	return append(dst, src...)
}
