package bulk

import (
	"context"

	insaneJSON "github.com/ozontech/insane-json"
	"encoding/binary"
	"sync"
	"sync/atomic"
	"time"

	"github.com/ozontech/seq-db/disk"
	"github.com/ozontech/seq-db/frac"
	"github.com/ozontech/seq-db/seq"
	rt "github.com/ozontech/seq-db/verifrt"
)

// ---- the JSON library and the clock arithmetic are replaced by symbolic stubs --------------

type vDocSpec struct {
	bytes   []byte
	outcome uint8 // 0 well-formed object, 1 valid JSON but not an object, 2 not valid JSON
	found   bool  // a time field was found and parsed
	delay   time.Duration
	rnd     uint64
}

var (
	vDocs []*vDocSpec
	vCur  *vDocSpec // document being processed
	vReq  = time.Unix(2000, 0)
	vDocT = time.Unix(1000, 0)
)

type vJSONErr struct{}

func (vJSONErr) Error() string { return "invalid json" }

func vDecode(doc []byte) error {
	vCur = nil
	for _, d := range vDocs {
		if len(d.bytes) == len(doc) && &d.bytes[0] == &doc[0] {
			vCur = d
		}
	}
	if vCur == nil {
		panic("harness: unknown document")
	}
	if vCur.outcome == 2 {
		return vJSONErr{}
	}
	return nil
}
func vIsObject() bool { return vCur.outcome == 0 }

// vNoDecoder: the processor has no JSON decoder (its uses are replaced).
func vNoDecoder(func() *insaneJSON.Root) *insaneJSON.Root { return nil }
func vExtractDocTime(requestTime time.Time) (time.Time, []string) {
	if vCur.found {
		return vDocT, []string{"time"}
	}
	return requestTime, nil
}

// vSub stands for requestTime.Sub(docTime): an arbitrary duration (saturation included).
func vSub(_, _ time.Time) time.Duration { return vCur.delay }
func vRand(func() uint64) uint64 {
	if vCur == nil {
		return 7 // instance index of the pooled processor
	}
	return vCur.rnd
}
func vIndex(p *processor, id seq.ID, size uint32) {
	p.indexer.metas = append(p.indexer.metas[:0], frac.MetaData{ID: id, Size: size, Tokens: []frac.MetaToken{{Key: seq.AllTokenName, Value: []byte{}}}})
}

type vMapping struct{}

func (vMapping) GetMapping() seq.Mapping        { return nil }
func (vMapping) GetRawMapping() *seq.RawMapping { return nil }

type vStoreCall struct {
	count       int
	docs, metas []byte
}
type vClient struct {
	calls []vStoreCall
	fail  bool
}
type vStoreErr struct{}

func (vStoreErr) Error() string { return "stores unavailable" }

func (c *vClient) StoreDocuments(_ context.Context, count int, docs, metas []byte) error {
	c.calls = append(c.calls, vStoreCall{count, append([]byte(nil), docs...), append([]byte(nil), metas...)})
	if c.fail {
		return vStoreErr{}
	}
	return nil
}

// VerifIngest: a bulk is stored once with exactly its well-formed documents (bytes unchanged,
// in order, IDs timed by rule), or - if any line is not valid JSON or the stores fail - not
// acknowledged at all; non-object lines are skipped without disturbing their neighbours.
func VerifIngest() {
	drift, future := time.Duration(rt.NondetI64()), time.Duration(rt.NondetI64())
	rt.Assume(rt.And(drift >= 0, future >= 0))
	rate := make(chan struct{}, 1)
	rate <- struct{}{}
	ing := &Ingestor{
		config:    IngestorConfig{MaxInflightBulks: 1, AllowedTimeDrift: drift, FutureAllowedTimeDrift: future, MappingProvider: vMapping{}},
		rateLimit: rate,
		procPool:  &sync.Pool{},
		inflight:  &atomic.Int64{}, bulks: &atomic.Int64{}, docs: &atomic.Int64{}, took: &atomic.Int64{}, stopped: &atomic.Bool{},
	}
	// several requests through the same ingestor (its pooled buffers and processors are re-used)
	for r := 0; r < rt.Param("REQUESTS"); r++ {
		vOneRequest(ing, drift, future)
	}
	rt.Reach("end")
}

func vOneRequest(ing *Ingestor, drift, future time.Duration) {
	n := rt.Param("DOCS")
	vDocs, vCur = nil, nil
	for i := 0; i < n; i++ {
		d := &vDocSpec{bytes: rt.NondetBytes(1 + rt.Choose(rt.Param("MAXLEN"))), outcome: rt.NondetU8(), found: rt.NondetBool(), delay: time.Duration(rt.NondetI64()), rnd: rt.NondetU64()}
		rt.Assume(d.outcome <= 2)
		vDocs = append(vDocs, d)
	}
	cl := &vClient{fail: rt.NondetBool()}
	ing.client = cl
	next := 0
	total, err := ing.ProcessDocuments(context.Background(), vReq, func() ([]byte, error) {
		if next == len(vDocs) {
			return nil, nil
		}
		next++
		return vDocs[next-1].bytes, nil
	})
	rt.Reach("returned")

	invalid := false
	var accepted []*vDocSpec
	for _, d := range vDocs {
		if d.outcome == 2 {
			invalid = true
			break
		}
		if d.outcome == 0 {
			accepted = append(accepted, d)
		}
	}
	if invalid {
		rt.Assert(rt.And(err != nil, total == 0), "a line that is not valid JSON rejects the whole request")
		rt.Assert(len(cl.calls) == 0, "a rejected request stores nothing")
		rt.Reach("rejected")
		return
	}
	if len(accepted) == 0 {
		rt.Assert(rt.And(err == nil, total == 0), "nothing to store")
		rt.Assert(len(cl.calls) == 0, "an empty bulk is not sent")
		return
	}
	rt.Assert(len(cl.calls) == 1, "the bulk is handed to the stores exactly once")
	if len(cl.calls) != 1 {
		return
	}
	if cl.fail {
		rt.Assert(rt.And(err != nil, total == 0), "a bulk the stores refused is not acknowledged")
	} else {
		rt.Assert(rt.And(err == nil, total == len(accepted)), "the response counts exactly the stored documents")
	}
	call := cl.calls[0]
	rt.Assert(call.count == len(accepted), "count = number of well-formed documents")
	// documents: length-prefixed, verbatim, in order
	docs := disk.DocBlock(call.docs).Payload()
	for _, d := range accepted {
		if len(docs) < 4+len(d.bytes) {
			rt.Assert(false, "docs payload is too short")
			return
		}
		rt.Assert(int(binary.LittleEndian.Uint32(docs)) == len(d.bytes), "length prefix of the document")
		rt.Assert(string(docs[4:4+len(d.bytes)]) == string(d.bytes), "document bytes unchanged")
		docs = docs[4+len(d.bytes):]
	}
	rt.Assert(len(docs) == 0, "nothing but the well-formed documents is stored")
	// metas: one per document, ID timed by rule
	metas := disk.DocBlock(call.metas).Payload()
	for _, d := range accepted {
		if len(metas) < 4 {
			rt.Assert(false, "metas payload is too short")
			return
		}
		l := int(binary.LittleEndian.Uint32(metas))
		var md frac.MetaData
		uerr := md.UnmarshalBinary(metas[4 : 4+l])
		rt.Assert(uerr == nil, "metadata decodes")
		metas = metas[4+l:]
		inRange := rt.And(d.found, rt.And(d.delay <= drift, int64(d.delay) >= -int64(future)))
		want := seq.TimeToMID(vReq)
		if inRange {
			want = seq.TimeToMID(vDocT)
			rt.Reach("own-time")
		}
		rt.Assert(md.ID.MID == want, "ID carries the document's time iff it was found and lies within the allowed drift, else the receive time")
		rt.Assert(int(md.Size) == len(d.bytes), "metadata size = document size")
	}
	rt.Assert(len(metas) == 0, "one metadata record per stored document")
	rt.Reach("request-stored")
}
