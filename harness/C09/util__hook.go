package util

// VerifShuffle, when set by a harness, replaces the random permutation of IdxShuffle by an
// arbitrary one (every permutation is a possible result of rand.Shuffle).
var VerifShuffle func(n int) []int
