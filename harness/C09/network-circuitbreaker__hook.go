package circuitbreaker

import "context"

// VerifCircuitExecute stands for cep21/circuit's Circuit.Execute with no fallback configured;
// the bulk harness installs a model of its contract.
var VerifCircuitExecute func(ctx context.Context, run func(context.Context) error) error
