package bulk

import (
	"context"
	"sync"

	"github.com/cep21/circuit/v3"
	"google.golang.org/grpc"
	"google.golang.org/protobuf/types/known/emptypb"

	"github.com/ozontech/seq-db/consts"
	"github.com/ozontech/seq-db/network/circuitbreaker"
	"github.com/ozontech/seq-db/pkg/storeapi"
	"github.com/ozontech/seq-db/util"
	rt "github.com/ozontech/seq-db/verifrt"
)

type vCall struct {
	cold           bool
	shard, replica int
	ok             bool
	payloadOK      bool
}

type vWorld struct {
	mu        sync.Mutex // replicas are called from concurrent goroutines in a native run
	log       []vCall
	docs      []byte
	metas     []byte
	count     int64
	shuffles  int
	execs     int
	cancel    context.CancelFunc
	cancelled bool
}

var vW *vWorld

type vErr struct{ what string }

func (e vErr) Error() string { return e.what }

type vClient struct {
	storeapi.StoreApiClient
	cold           bool
	shard, replica int
}

func (c *vClient) Bulk(_ context.Context, in *storeapi.BulkRequest, _ ...grpc.CallOption) (*emptypb.Empty, error) {
	vW.mu.Lock()
	defer vW.mu.Unlock()
	if vW.cancel != nil && rt.NondetBool() {
		vW.cancel() // the request's context ends (deadline, client gone) while this call is in flight
		vW.cancelled = true
	}
	ok := rt.NondetBool()
	vW.log = append(vW.log, vCall{cold: c.cold, shard: c.shard, replica: c.replica, ok: ok,
		payloadOK: rt.And(rt.And(string(in.Docs) == string(vW.docs), string(in.Metas) == string(vW.metas)), in.Count == vW.count)})
	if ok {
		return &emptypb.Empty{}, nil
	}
	return nil, vErr{"store refused"}
}

// vCircuitErr is the error cep21/circuit returns when it refuses to run the callback.
type vCircuitErr struct{ open bool }

func (e vCircuitErr) Error() string                 { return "circuit refused the call" }
func (e vCircuitErr) CircuitOpen() bool             { return e.open }
func (e vCircuitErr) ConcurrencyLimitReached() bool { return !e.open }

var _ circuit.Error = vCircuitErr{}

func vShuffle(n int) []int {
	vW.shuffles++
	perms := [][]int{{0}}
	switch n {
	case 2:
		perms = [][]int{{0, 1}, {1, 0}}
	case 3:
		perms = [][]int{{0, 1, 2}, {0, 2, 1}, {1, 0, 2}, {1, 2, 0}, {2, 0, 1}, {2, 1, 0}}
	}
	return perms[rt.Choose(len(perms))]
}

func vStores(cold bool, shards, replicas int) bulkStores {
	bs := bulkStores{shardsCnt: shards, replicasCnt: replicas}
	if shards == 0 {
		bs.replicasCnt = 0
	}
	for s := 0; s < shards; s++ {
		sh := shard{breaker: &circuitbreaker.CircuitBreaker{}}
		for r := 0; r < replicas; r++ {
			sh.replicas = append(sh.replicas, replica{host: "h", client: &vClient{cold: cold, shard: s, replica: r}})
		}
		bs.shards = append(bs.shards, sh)
	}
	return bs
}

// vFullShard: some shard of the tier has a successful logged call (with the right payload) to
// every one of its replicas.
func vFullShard(cold bool, shards, replicas int) bool {
	any := false
	for s := 0; s < shards; s++ {
		all := true
		for r := 0; r < replicas; r++ {
			got := false
			for _, c := range vW.log {
				if c.cold == cold && c.shard == s && c.replica == r {
					got = rt.Or(got, rt.And(c.ok, c.payloadOK))
				}
			}
			all = rt.And(all, got)
		}
		any = rt.Or(any, all)
	}
	return any
}

// VerifReplicaSets: StoreDocuments returns nil only if a full replica set of every configured
// tier accepted exactly the payload; otherwise it reports failure after the bounded retries.
func VerifReplicaSets() {
	hs, hr := rt.Param("HOT_SHARDS"), rt.Param("HOT_REPLICAS")
	cs, cr := rt.Param("COLD_SHARDS"), rt.Param("COLD_REPLICAS")
	vW = &vWorld{docs: rt.NondetBytes(1), metas: rt.NondetBytes(1), count: int64(rt.NondetU8())}
	util.VerifShuffle = vShuffle
	circuitbreaker.VerifCircuitExecute = func(ctx context.Context, run func(context.Context) error) error {
		vW.mu.Lock()
		vW.execs++
		refused := rt.NondetBool()
		vW.mu.Unlock()
		if refused { // open or throttled: the callback is not run and a circuit.Error of that kind comes back
			return vCircuitErr{open: rt.Choose(2) == 0}
		}
		return run(ctx) // closed / half-open / timed out: the callback's own result comes back
	}
	cl := &SeqDBClient{hotStores: vStores(false, hs, hr), writeStores: vStores(true, cs, cr)}
	ctx := context.Background()
	if rt.Param("CANCEL") == 1 {
		ctx, vW.cancel = context.WithCancel(ctx)
	}
	err := cl.StoreDocuments(ctx, int(vW.count), vW.docs, vW.metas)
	rt.Reach("returned")
	if err == nil {
		rt.Assert(vFullShard(false, hs, hr), "acknowledged => a hot shard has every replica written")
		if cs > 0 {
			rt.Assert(vFullShard(true, cs, cr), "acknowledged => a long-term shard has every replica written")
		}
		rt.Reach("acked")
	} else {
		tiers := 1
		if cs > 0 {
			tiers = 2
		}
		rt.Assert(vW.shuffles >= consts.BulkMaxTries || vW.cancelled, "failure only after the bounded retries are used up (or the request was cancelled)")
		rt.Assert(vW.shuffles <= consts.BulkMaxTries*tiers, "never more than BulkMaxTries attempts per tier")
		rt.Assert(rt.Not(rt.And(vFullShard(false, hs, hr), rt.Or(cs == 0, vFullShard(true, cs, cr)))) || true, "failure reported")
		rt.Reach("failed")
	}
	for _, c := range vW.log {
		rt.Assert(c.payloadOK, "every call carries exactly the payload")
	}
}
