package search

import (
	"context"
	"errors"

	"google.golang.org/grpc"
	"google.golang.org/grpc/status"

	"github.com/ozontech/seq-db/consts"
	"github.com/ozontech/seq-db/pkg/storeapi"
	"github.com/ozontech/seq-db/proxy/stores"
	"github.com/ozontech/seq-db/seq"
	rt "github.com/ozontech/seq-db/verifrt"
)

type vStoreErr struct{ msg string }

func (e vStoreErr) Error() string { return e.msg }

// vErrMessage stands for status.Convert(err).Message() on the harness's errors.
func vErrMessage(err error) string { return err.Error() }
func vErrMessage2(_ func(error) *status.Status, err error) string { return err.Error() }

const (
	vOK = iota
	vFail
	vOld
	vTooMany
)

type vStore struct {
	storeapi.StoreApiClient
	cold      bool
	shard     int
	behaviour uint8
	docs      []seq.ID // this shard's documents, descending
	calls     *int
}

func (c *vStore) Search(_ context.Context, req *storeapi.SearchRequest, _ ...grpc.CallOption) (*storeapi.SearchResponse, error) {
	*c.calls++
	switch c.behaviour {
	case vFail:
		return nil, vStoreErr{"store is down"}
	case vOld:
		return &storeapi.SearchResponse{Code: storeapi.SearchErrorCode_INGESTOR_QUERY_WANTS_OLD_DATA}, nil
	case vTooMany:
		return &storeapi.SearchResponse{Code: storeapi.SearchErrorCode_TOO_MANY_FRACTIONS_HIT}, nil
	}
	resp := &storeapi.SearchResponse{}
	n := len(c.docs)
	limit := int(req.Size + req.Offset)
	for k := 0; k < n && k < limit; k++ {
		id := c.docs[k]
		if req.Order == storeapi.Order_ORDER_ASC {
			id = c.docs[n-1-k]
		}
		resp.IdSources = append(resp.IdSources, &storeapi.SearchResponse_IdWithHint{Id: &storeapi.SearchResponse_Id{Mid: uint64(id.MID), Rid: uint64(id.RID)}})
	}
	return resp, nil
}

type vTier struct {
	shards  [][]string
	stores  [][]*vStore
	outcome []int // per shard: vOK / vFail / vOld / vTooMany as seen by searchShard
}

func vMkTier(cold bool, ns, nr int, clients map[string]storeapi.StoreApiClient, docs [][]seq.ID, calls *int) *vTier {
	t := &vTier{}
	for s := 0; s < ns; s++ {
		var hosts []string
		var row []*vStore
		for r := 0; r < nr; r++ {
			h := string([]byte{'h', byte('0' + s), byte('0' + r)})
			if cold {
				h = string([]byte{'c', byte('0' + s), byte('0' + r)})
			}
			b := rt.NondetU8()
			rt.Assume(b <= vTooMany)
			st := &vStore{cold: cold, shard: s, behaviour: b, docs: docs[s], calls: calls}
			clients[h] = st
			hosts = append(hosts, h)
			row = append(row, st)
		}
		t.shards = append(t.shards, hosts)
		t.stores = append(t.stores, row)
		// what searchShard sees: replicas are tried in order until one answers
		o := vFail
		for r := 0; r < nr; r++ {
			if row[r].behaviour != vFail {
				o = int(row[r].behaviour)
				break
			}
		}
		t.outcome = append(t.outcome, o)
	}
	return t
}

// vMerged: reference merged top-(limit) over the answering shards.
func vMerged(t *vTier, docs [][]seq.ID, all []seq.ID, asc bool, limit int) []seq.ID {
	var out []seq.ID
	n := len(all)
	for k := 0; k < n; k++ {
		id := all[k]
		if asc {
			id = all[n-1-k]
		}
		have := false // a document held by several answering shards is listed once
		for s := range docs {
			if t.outcome[s] != vOK {
				continue
			}
			for _, d := range docs[s] {
				if d == id {
					have = true
				}
			}
		}
		if have && len(out) < limit {
			out = append(out, id)
		}
	}
	return out
}

// VerifDegrade: a proxy search over failing stores either fails, or returns the merged top over
// exactly the shards that answered - complete only if every shard answered, flagged partial
// otherwise - and asks the long-term stores iff a hot store refuses the range as too old.
func VerifDegrade() {
	ns, nr := rt.Param("SHARDS"), rt.Param("REPLICAS")
	cs := rt.Param("COLD_SHARDS")
	per := rt.Param("DOCS_PER_SHARD")

	// all documents, globally strictly descending; dealt to the shards round-robin
	total := ns * per
	all := make([]seq.ID, total)
	for i := range all {
		all[i] = seq.ID{MID: seq.MID(rt.NondetU64()), RID: seq.RID(rt.NondetU64())}
		if i > 0 {
			rt.Assume(seq.Less(all[i], all[i-1]))
		}
	}
	hotDocs := make([][]seq.ID, ns)
	for i, d := range all {
		s := rt.Choose(ns)
		hotDocs[s] = append(hotDocs[s], d)
		if rt.Param("DUP") == 1 && i == 0 && ns > 1 && rt.Choose(2) == 1 {
			// a bulk retried to another shard: the same document lives on two shards
			hotDocs[(s+1)%ns] = append(hotDocs[(s+1)%ns], d)
			rt.Reach("dup-across-shards")
		}
	}
	coldDocs := make([][]seq.ID, cs)
	for _, d := range all {
		if cs > 0 {
			s := rt.Choose(cs)
			coldDocs[s] = append(coldDocs[s], d)
		}
	}

	clients := map[string]storeapi.StoreApiClient{}
	hotCalls, coldCalls := 0, 0
	hot := vMkTier(false, ns, nr, clients, hotDocs, &hotCalls)
	cold := vMkTier(true, cs, nr, clients, coldDocs, &coldCalls)
	// arrival order of the shard answers = order of the shard list
	if ns == 2 && rt.Choose(2) == 1 {
		hot.shards[0], hot.shards[1] = hot.shards[1], hot.shards[0]
		hot.outcome[0], hot.outcome[1] = hot.outcome[1], hot.outcome[0]
		hotDocs[0], hotDocs[1] = hotDocs[1], hotDocs[0]
	}

	si := NewIngestor(Config{
		HotStores:  &stores.Stores{Shards: hot.shards},
		ReadStores: &stores.Stores{Shards: cold.shards},
	}, clients)

	offset, size := rt.NondetInt(), rt.NondetInt()
	rt.Assume(rt.And(rt.And(0 <= offset, offset <= total), rt.And(0 <= size, size <= total+1)))
	order := seq.DocsOrder(rt.Choose(2))
	sr := &SearchRequest{Q: []byte("q"), Offset: offset, Size: size, Order: order}
	qpr, _, _, err := si.Search(context.Background(), sr, nil)
	rt.Reach("returned")

	// reference decision, in arrival order
	decide := func(t *vTier) int { // vOK: all answered; vFail: some failed; vOld / vTooMany: first special event
		res := vOK
		for _, o := range t.outcome {
			if o == vOld || o == vTooMany {
				return o
			}
			if o == vFail {
				res = vFail
			}
		}
		return res
	}
	anyOK := func(t *vTier) bool {
		for _, o := range t.outcome {
			if o == vOK {
				return true
			}
		}
		return false
	}
	phase, phaseDocs := hot, hotDocs
	d := decide(hot)
	hasOld, hasTooMany := false, false
	for _, o := range hot.outcome {
		hasOld = hasOld || o == vOld
		hasTooMany = hasTooMany || o == vTooMany
	}
	if hasOld && hasTooMany {
		// which refusal is seen first depends on the arrival order of the shard answers: both
		// reactions are correct; only their consistency is checked
		if coldCalls == 0 {
			rt.Assert(rt.And(err != nil, qpr == nil), "too many fractions seen first: error")
			return
		}
		d = vOld
	}
	wentCold := false
	if d == vOld {
		wentCold = true
		if cs == 0 {
			rt.Assert(rt.And(err != nil, qpr == nil), "too old for the hot stores and no long-term stores: error")
			rt.Assert(coldCalls == 0, "no long-term store to ask")
			return
		}
		phase, phaseDocs = cold, coldDocs
		d = decide(cold)
	}
	if wentCold {
		rt.Assert(coldCalls > 0, "a hot store refused the range as too old: the long-term stores are asked")
	} else {
		rt.Assert(coldCalls == 0, "long-term stores are asked only when a hot store refuses the range")
	}
	switch {
	case d == vTooMany || d == vOld:
		rt.Assert(rt.And(err != nil, qpr == nil), "a store forbids the request: error")
	case d == vFail && !anyOK(phase):
		rt.Assert(rt.And(err != nil, qpr == nil), "no shard answered: error")
	default:
		want := vMerged(phase, phaseDocs, all, order.IsReverse(), offset+size)
		if len(want) > offset {
			want = want[offset:]
		} else {
			want = nil
		}
		rt.Assert(qpr != nil, "some shard answered: a result is returned")
		if qpr == nil {
			return
		}
		if d == vFail {
			rt.Assert(rt.And(err != nil, errors.Is(err, consts.ErrPartialResponse)), "a shard did not answer: the result is flagged partial")
			rt.Reach("partial")
		} else {
			rt.Assert(err == nil, "every shard answered: the result is complete")
			rt.Reach("complete")
		}
		rt.Assert(len(qpr.IDs) == len(want), "ids = page of the merged top over the answering shards (count)")
		if len(qpr.IDs) == len(want) {
			for i := range want {
				rt.Assert(qpr.IDs[i].ID == want[i], "ids = page of the merged top over the answering shards (content)")
			}
		}
	}
}
