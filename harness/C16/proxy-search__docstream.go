package search

import (
	"context"
	"io"

	"google.golang.org/grpc"

	"github.com/ozontech/seq-db/disk"
	"github.com/ozontech/seq-db/pkg/storeapi"
	"github.com/ozontech/seq-db/seq"
	rt "github.com/ozontech/seq-db/verifrt"
)

type vDSErr struct{ msg string }

func (e vDSErr) Error() string { return e.msg }

// vDSStream is the fetch stream of one store: the packed documents of the requested IDs in
// request order (an empty payload = not found), possibly breaking at position failAt.
type vDSStream struct {
	grpc.ClientStream
	items  []*storeapi.BinaryData
	pos    int
	failAt int
}

func (s *vDSStream) Recv() (*storeapi.BinaryData, error) {
	if s.pos == s.failAt {
		return nil, vDSErr{"stream broke"}
	}
	if s.pos >= len(s.items) {
		return nil, io.EOF
	}
	s.pos++
	return s.items[s.pos-1], nil
}

type vDSStore struct {
	storeapi.StoreApiClient
	down   bool
	items  []*storeapi.BinaryData
	failAt int
	calls  int
}

func (c *vDSStore) Fetch(_ context.Context, req *storeapi.FetchRequest, _ ...grpc.CallOption) (storeapi.StoreApi_FetchClient, error) {
	c.calls++
	rt.Assert(len(req.Ids) <= len(c.items), "the store is asked for exactly its IDs")
	if c.down {
		return nil, vDSErr{"store is down"}
	}
	return &vDSStream{items: c.items, failAt: c.failAt}, nil
}

func vDSPack(id seq.ID, payload []byte) *storeapi.BinaryData {
	b := disk.PackDocBlock(payload, nil)
	b.SetExt1(uint64(id.MID))
	b.SetExt2(uint64(id.RID))
	return &storeapi.BinaryData{Data: b}
}

// VerifDocStream: in a successful fetch through the proxy the i-th document is the document of
// the i-th requested ID - its bytes as the store sent them, or empty when its store is down,
// does not have it, or its stream broke before it - whatever the other stores do.
func VerifDocStream() {
	ns, n := rt.Param("SOURCES"), rt.Param("IDS")
	clients := map[string]storeapi.StoreApiClient{}
	stores := make([]*vDSStore, ns)
	hosts := make([]string, ns)
	for s := range stores {
		hosts[s] = string([]byte{'h', byte('0' + s)})
		stores[s] = &vDSStore{down: rt.NondetBool(), failAt: -1}
		clients[hosts[s]] = stores[s]
	}
	si := NewIngestor(Config{}, clients)

	raw := make([]seq.ID, n)
	for i := range raw {
		raw[i] = seq.ID{MID: seq.MID(rt.NondetU64()), RID: seq.RID(rt.NondetU64())}
		for j := 0; j < i; j++ {
			rt.Assume(raw[j] != raw[i])
		}
	}
	data := make([]byte, n)
	for i := range data {
		data[i] = rt.NondetU8()
	}

	if rt.Choose(2) == 0 {
		// search results: every ID comes with the source that reported it
		ids := make([]seq.IDSource, n)
		src := make([]int, n)
		pos := make([]int, n) // position of the ID in its store's stream
		present := make([]bool, n)
		dupDone := false
		for i := range ids {
			src[i] = rt.Choose(ns)
			ids[i] = seq.IDSource{ID: raw[i], Source: si.sourceByClient[hosts[src[i]]]}
			present[i] = rt.NondetBool()
			st := stores[src[i]]
			pos[i] = len(st.items)
			if present[i] {
				st.items = append(st.items, vDSPack(raw[i], []byte{data[i]}))
				if rt.Param("DUPBLOCK") == 1 && !dupDone && rt.Choose(2) == 1 {
					// a store that sends one document twice: the extra block must not cost another document its place
					st.items = append(st.items, vDSPack(raw[i], []byte{data[i]}))
					dupDone = true
					rt.Reach("dup-block")
				}
			} else {
				st.items = append(st.items, vDSPack(raw[i], nil))
			}
		}
		anyUp, anyAsked := false, false
		for _, st := range stores {
			st.failAt = rt.NondetInt()
			rt.Assume(rt.And(-1 <= st.failAt, st.failAt <= len(st.items)))
			if len(st.items) > 0 {
				anyAsked = true
				if !st.down {
					anyUp = true
				}
			}
		}
		it, err := si.FetchDocsStream(context.Background(), ids, false, FetchFieldsFilter{})
		rt.Reach("fetched")
		if anyAsked && !anyUp {
			rt.Assert(err != nil, "no store could be asked: error")
			return
		}
		rt.Assert(err == nil, "some store answers: a stream is returned")
		if err != nil {
			return
		}
		for i := range ids {
			d, e := it.Next()
			rt.Assert(e == nil, "one entry per requested ID")
			if e != nil {
				return
			}
			rt.Assert(d.ID == raw[i], "the i-th document carries the i-th ID")
			st := stores[src[i]]
			delivered := !st.down && present[i] && (st.failAt < 0 || pos[i] < st.failAt)
			if delivered {
				rt.Assert(len(d.Data) == 1, "a delivered document arrives with its bytes")
				if len(d.Data) == 1 {
					rt.Assert(d.Data[0] == data[i], "a delivered document arrives with its bytes")
				}
			} else {
				rt.Assert(len(d.Data) == 0, "an undelivered document is an empty entry")
			}
		}
		_, e := it.Next()
		rt.Assert(e == io.EOF, "the stream ends after the last ID")
		rt.Reach("end-sourced")
		return
	}

	// fetch by ID: every store is asked for every ID; replicas hold the same bytes or nothing
	present := make([][]bool, ns)
	for s, st := range stores {
		present[s] = make([]bool, n)
		for i := range raw {
			present[s][i] = rt.NondetBool()
			if present[s][i] {
				st.items = append(st.items, vDSPack(raw[i], []byte{data[i]}))
			} else {
				st.items = append(st.items, vDSPack(raw[i], nil))
			}
		}
		st.failAt = rt.NondetInt()
		rt.Assume(rt.And(-1 <= st.failAt, st.failAt <= len(st.items)))
	}
	anyUp := false
	for _, st := range stores {
		if !st.down {
			anyUp = true
		}
	}
	it, err := si.Documents(context.Background(), FetchRequest{IDs: raw})
	rt.Reach("fetched")
	if n > 0 && !anyUp {
		rt.Assert(err != nil, "no store could be asked: error")
		return
	}
	rt.Assert(err == nil, "some store answers: a stream is returned")
	if err != nil {
		return
	}
	for i := range raw {
		d, e := it.Next()
		rt.Assert(e == nil, "one entry per requested ID")
		if e != nil {
			return
		}
		rt.Assert(d.ID == raw[i], "the i-th document carries the i-th ID")
		delivered := false
		for s, st := range stores {
			if !st.down && present[s][i] && (st.failAt < 0 || i < st.failAt) {
				delivered = true
			}
		}
		if delivered {
			rt.Assert(len(d.Data) == 1, "a document some store delivers arrives with its bytes, once")
			if len(d.Data) == 1 {
				rt.Assert(d.Data[0] == data[i], "a document some store delivers arrives with its bytes, once")
			}
		} else {
			rt.Assert(len(d.Data) == 0, "a document no store delivers is an empty entry")
		}
	}
	_, e := it.Next()
	rt.Assert(e == io.EOF, "the stream ends after the last ID")
	rt.Reach("end-by-id")
}
