package frac

import (
	"context"
	"io"
	"os"
	"runtime"
	"sync"
	"time"

	"github.com/ozontech/seq-db/disk"
	"github.com/ozontech/seq-db/metric/stopwatch"
	rt "github.com/ozontech/seq-db/verifrt"
)

// vFile is an append-only file that survives "crashes"; an in-flight write may be torn.
type vFile struct {
	data    []byte
	tearAt  int  // >= 0: the next WriteAt stores only this many bytes and then the process dies
	crashed bool // set when the torn write happened
	yield   bool // concurrent_bulks: any write may be overtaken by the other goroutines
}

type vCrash struct{}

func (f *vFile) WriteAt(p []byte, off int64) (int, error) {
	if f.yield && rt.ChooseSchedule(2) == 1 {
		// the writer is descheduled just before the system call: the other goroutines run until they block or finish
		if rt.Symbolic() {
			runtime.Gosched()
		} else {
			time.Sleep(30 * time.Millisecond)
		}
	}
	n := len(p)
	if f.tearAt >= 0 {
		n = f.tearAt
		f.tearAt = -1
		f.crashed = true
	}
	end := int(off) + n
	for len(f.data) < end {
		f.data = append(f.data, 0)
	}
	copy(f.data[off:], p[:n])
	if f.crashed {
		panic(vCrash{})
	}
	return n, nil
}
func (f *vFile) Sync() error { return nil }
func (f *vFile) readAt(_ *os.File, buf []byte, off int64) (int, error) {
	if off >= int64(len(f.data)) {
		return 0, io.EOF
	}
	n := copy(buf, f.data[off:])
	if n < len(buf) {
		return n, io.EOF
	}
	return n, nil
}

type vBulk struct {
	docsOff  int64 // physical offset of the docs block
	docsLen  int
	docsByte byte
	metaByte byte
	acked    bool
	whole    bool // both blocks completely on disk
}

type vTask struct {
	pos      uint64
	ext1     uint64
	metaByte byte
	metaLen  int
}

// vRestart: what a start-up does with the two files: writer offsets = file sizes (as NewActive
// wires them), then Replay; returns the index tasks Replay produced.
func vRestart(docs, meta *vFile) (*ActiveWriter, []vTask, error) {
	disk.VerifReadAt = meta.readAt
	ai := NewActiveIndexer(1, 64)
	var tasks []vTask
	go func() { // stands for the append workers: record the task and acknowledge it
		for t := range ai.ch {
			tasks = append(tasks, vTask{pos: t.Pos, ext1: t.Metas.GetExt1(), metaByte: t.Metas.Payload()[0], metaLen: len(t.Metas.Payload())})
			t.Wg.Done()
		}
	}()
	f := &Active{
		info:       &Info{Path: "frac", DocsOnDisk: uint64(len(docs.data)), MetaOnDisk: uint64(len(meta.data))}, // sizes of the files found, as NewActive/NewInfo set them
		indexer:    ai,
		metaReader: disk.NewDocBlocksReader(disk.NewReadLimiter(1, nil), nil),
	}
	err := f.Replay(context.Background())
	w := &ActiveWriter{docs: NewFileWriter(docs, int64(len(docs.data)), true), meta: NewFileWriter(meta, int64(len(meta.data)), true)}
	return w, tasks, err
}

// vWrite runs one bulk through the real ActiveWriter; a crash (torn write) unwinds it.
func vWrite(w *ActiveWriter, docsBlock, metaBlock []byte) (crashed bool) {
	defer func() {
		if r := recover(); r != nil {
			if _, ok := r.(vCrash); !ok {
				panic(r)
			}
			crashed = true
		}
	}()
	err := w.Write(docsBlock, metaBlock, stopwatch.New())
	rt.Assert(err == nil, "write without I/O error succeeds")
	return false
}

// VerifCrashHistory: after any history of bulks, crashes at any point of the write path (with a
// torn tail of either file) and restarts, Replay hands every acknowledged bulk to the indexer
// exactly once, at the physical offset of its documents, and never a torn or foreign block.
func VerifCrashHistory() {
	steps := rt.Param("STEPS")
	docs, meta := &vFile{tearAt: -1}, &vFile{tearAt: -1}
	w, _, _ := vRestart(docs, meta)
	var bulks []*vBulk
	restarts := 0
	tornDocs, orphan, tornMeta := false, false, false
	tag := func(label string) string { // names the kinds of crash the history contains
		t := label + " | history:"
		if tornDocs {
			t += " torn-docs-tail"
		}
		if orphan {
			t += " orphan-docs-block"
		}
		if tornMeta {
			t += " torn-meta-tail"
		}
		if !tornDocs && !orphan && !tornMeta {
			t += " clean"
		}
		return t
	}
	for s := 0; s < steps; s++ {
		kind := 0
		if s >= rt.Param("ACKED_PREFIX") { // the first ACKED_PREFIX steps are acknowledged bulks; every later step is arbitrary
			kind = rt.Choose(3)
		}
		switch kind {
		case 0: // a bulk that is written and acknowledged
			b := &vBulk{docsOff: int64(len(docs.data)), docsByte: rt.NondetU8(), metaByte: byte(0xA0 + s)} // the metadata payload identifies the bulk
			db := disk.PackDocBlock([]byte{b.docsByte}, nil)
			mb := disk.PackDocBlock([]byte{b.metaByte}, nil)
			b.docsLen = len(db)
			crashed := vWrite(w, db, mb)
			rt.Assert(!crashed, "no crash injected")
			b.acked, b.whole = true, true
			bulks = append(bulks, b)
		case 1: // the process dies inside a bulk, then restarts
			b := &vBulk{docsOff: int64(len(docs.data)), docsByte: rt.NondetU8(), metaByte: byte(0xA0 + s)}
			db := disk.PackDocBlock([]byte{b.docsByte}, nil)
			mb := disk.PackDocBlock([]byte{b.metaByte}, nil)
			b.docsLen = len(db)
			switch rt.Choose(4) {
			case 0: // docs block torn
				docs.tearAt = rt.Choose(len(db))
				tornDocs = tornDocs || docs.tearAt > 0
			case 1: // docs written, meta not started: an orphan docs block stays behind
				meta.tearAt = 0
				orphan = true
			case 2: // meta block torn
				meta.tearAt = 1 + rt.Choose(len(mb)-1)
				orphan, tornMeta = true, true
			case 3: // both written, the crash comes before the acknowledgement
				b.whole = true
			}
			crashed := vWrite(w, db, mb)
			if !b.whole {
				rt.Assert(crashed, "crash injected")
			}
			docs.crashed, meta.crashed = false, false
			bulks = append(bulks, b)
			fallthrough
		default: // restart
			restarts++
			var tasks []vTask
			var err error
			w, tasks, err = vRestart(docs, meta)
			rt.Assert(err == nil, tag("the store comes back up: replay succeeds"))
			rt.Reach("restarted")
			for _, t := range tasks {
				known := false
				for _, b := range bulks {
					if t.metaLen == 1 && t.metaByte == b.metaByte {
						known = true
					}
				}
				rt.Assert(known, tag("every replayed block is the metadata block of a bulk that was written (never torn or foreign bytes)"))
			}
			for _, b := range bulks {
				cnt := 0
				for _, t := range tasks {
					if t.metaLen == 1 && t.metaByte == b.metaByte {
						cnt++
						rt.Assert(t.pos == uint64(b.docsOff), tag("replayed position = physical offset of the bulk's documents"))
						rt.Assert(t.ext1 == uint64(b.docsLen), tag("replayed length = length of the bulk's documents block"))
					}
				}
				if b.acked {
					rt.Assert(cnt == 1, tag("acknowledged bulk is replayed exactly once"))
				} else if b.whole {
					rt.Assert(cnt <= 1, tag("unacknowledged bulk is present at most once"))
				} else {
					rt.Assert(cnt == 0, tag("a bulk that was cut short is wholly absent"))
				}
			}
			// the documents of every present bulk are at the replayed position
			for _, b := range bulks {
				if b.acked || b.whole {
					blk := disk.DocBlock(docs.data[b.docsOff : b.docsOff+int64(b.docsLen)])
					rt.Assert(rt.And(blk.Len() == 1, blk.Payload()[0] == b.docsByte), tag("documents intact at their offset"))
				}
			}
		}
	}
	rt.Reach("end")
}

// VerifConcurrentBulks: two bulks written concurrently through the same ActiveWriter - each
// write possibly overtaken by the other goroutine - are, after a restart, both replayed once, at
// the physical offsets of their documents.
func VerifConcurrentBulks() {
	for r := 0; r < rt.Repeat(); r++ { // natively the scheduling decisions are random: repeat the scenario
		vConcurrentBulks()
	}
}

func vConcurrentBulks() {
	docs, meta := &vFile{tearAt: -1}, &vFile{tearAt: -1}
	w, _, _ := vRestart(docs, meta)
	docs.yield, meta.yield = true, true
	const n = 2
	var wg sync.WaitGroup
	var blen int
	werr := make([]error, n)
	for i := 0; i < n; i++ {
		db := disk.PackDocBlock([]byte{byte(0xD0 + i)}, nil)
		mb := disk.PackDocBlock([]byte{byte(0xA0 + i)}, nil)
		blen = len(db)
		wg.Add(1)
		go func() {
			defer wg.Done()
			werr[i] = w.Write(db, mb, stopwatch.New())
		}()
	}
	wg.Wait()
	docs.yield, meta.yield = false, false
	for i := 0; i < n; i++ { // (asserted here: a failed assertion in another goroutine would take the process down)
		rt.Assert(werr[i] == nil, "write without I/O error succeeds")
	}
	rt.Reach("written")
	rt.Assert(len(docs.data) == n*blen, "both document blocks are in the docs file")
	_, tasks, err := vRestart(docs, meta)
	rt.Assert(err == nil, "the store comes back up: replay succeeds")
	rt.Assert(len(tasks) == n, "every acknowledged bulk is replayed exactly once")
	for i := 0; i < n; i++ {
		// where the documents of bulk i physically are
		off := -1
		for k := 0; k < n; k++ {
			blk := disk.DocBlock(docs.data[k*blen : (k+1)*blen])
			if blk.Len() == 1 && blk.Payload()[0] == byte(0xD0+i) {
				off = k * blen
			}
		}
		rt.Assert(off >= 0, "documents of the bulk are intact in the docs file")
		cnt := 0
		for _, t := range tasks {
			if t.metaLen == 1 && t.metaByte == byte(0xA0+i) {
				cnt++
				rt.Assert(t.pos == uint64(off), "replayed position = physical offset of the bulk's documents (concurrent writers)")
			}
		}
		rt.Assert(cnt == 1, "acknowledged bulk is replayed exactly once (concurrent writers)")
	}
	rt.Reach("end")
}

// vSyncFile: a file with a page cache.  Written bytes become durable only by a Sync that
// started after the write completed.
type vSyncFile struct {
	mu      sync.Mutex // the model itself is thread-safe, like a file
	written []bool
	durable []bool
	syncs   int
}

func vYield() {
	if rt.ChooseSchedule(2) == 1 {
		if rt.Symbolic() {
			runtime.Gosched()
		} else {
			time.Sleep(30 * time.Millisecond)
		}
	}
}

func (f *vSyncFile) WriteAt(p []byte, off int64) (int, error) {
	vYield() // descheduled before the system call
	f.mu.Lock()
	defer f.mu.Unlock()
	for len(f.written) < int(off)+len(p) {
		f.written = append(f.written, false)
		f.durable = append(f.durable, false)
	}
	for i := range p {
		f.written[int(off)+i] = true
	}
	return len(p), nil
}

func (f *vSyncFile) Sync() error {
	f.mu.Lock()
	snapshot := append([]bool(nil), f.written...) // what the kernel flushes: the writes completed so far
	f.mu.Unlock()
	vYield() // the flush takes time: other writers go on meanwhile
	f.mu.Lock()
	defer f.mu.Unlock()
	for i, w := range snapshot {
		if w {
			f.durable[i] = true
		}
	}
	f.syncs++
	return nil
}

// VerifFileWriterDurable: FileWriter batches the fsyncs of concurrent writers; whatever the
// interleaving, a Write that returned has its bytes on disk (a later fsync started after its
// WriteAt completed), at the offset it reports, not overlapping the other writer's bytes.
func VerifFileWriterDurable() {
	for r := 0; r < rt.Repeat(); r++ {
		vFileWriterDurable()
	}
}

func vFileWriterDurable() {
	f := &vSyncFile{}
	fw := NewFileWriter(f, 0, false)
	const n = 2
	var wg sync.WaitGroup
	offs := make([]int64, n)
	werr := make([]error, n)
	durable := make([]bool, n)
	lens := []int{2, 3}
	for i := 0; i < n; i++ {
		wg.Add(1)
		go func() {
			defer wg.Done()
			off, err := fw.Write(make([]byte, lens[i]), stopwatch.New())
			offs[i], werr[i] = off, err
			// acknowledged: every byte of this write must already be durable
			durable[i] = true
			for b := 0; b < lens[i]; b++ {
				if !(int(off)+b < len(f.durable) && f.durable[int(off)+b]) {
					durable[i] = false
				}
			}
		}()
	}
	wg.Wait()
	fw.Stop()
	for i := 0; i < n; i++ { // (asserted here: a failed assertion in another goroutine would take the process down)
		rt.Assert(werr[i] == nil, "write without I/O error succeeds")
		rt.Assert(durable[i], "an acknowledged write is durable (fsync completed after the write)")
	}
	rt.Reach("acked")
	rt.Assert(offs[0] != offs[1], "writers get distinct offsets")
	rt.Assert(offs[0]+int64(lens[0]) <= offs[1] || offs[1]+int64(lens[1]) <= offs[0], "regions of concurrent writers do not overlap")
	rt.Assert(len(f.written) == lens[0]+lens[1], "the file has no holes")
	rt.Reach("end")
}
