package frac

import (
	"context"
	"io"
	"os"
	"sync"

	"github.com/ozontech/seq-db/cache"
	"github.com/ozontech/seq-db/disk"
	"github.com/ozontech/seq-db/frac/lids"
	"github.com/ozontech/seq-db/frac/token"
	"github.com/ozontech/seq-db/node"
	"github.com/ozontech/seq-db/frac/processor"
	"github.com/ozontech/seq-db/parser"
	"github.com/ozontech/seq-db/seq"
	rt "github.com/ozontech/seq-db/verifrt"
)

// ---- in-memory index file -------------------------------------------------

type vIOErr struct{}

func (vIOErr) Error() string { return "injected I/O error" }

type vMem struct {
	data   []byte
	pos    int64
	ops    int
	failAt int // the failAt-th Write/Seek fails (0 = never)
	failed bool
}

func (m *vMem) step() bool {
	m.ops++
	if m.ops == m.failAt {
		m.failed = true
		return true
	}
	return false
}

func (m *vMem) Write(p []byte) (int, error) {
	if m.step() {
		return 0, vIOErr{}
	}
	end := int(m.pos) + len(p)
	for len(m.data) < end {
		m.data = append(m.data, 0)
	}
	copy(m.data[m.pos:], p)
	m.pos = int64(end)
	return len(p), nil
}

func (m *vMem) Seek(off int64, whence int) (int64, error) {
	if m.step() {
		return 0, vIOErr{}
	}
	switch whence {
	case io.SeekStart:
		m.pos = off
	case io.SeekCurrent:
		m.pos += off
	default:
		m.pos = int64(len(m.data)) + off
	}
	return m.pos, nil
}

func (m *vMem) readAt(_ *os.File, buf []byte, off int64) (int, error) {
	if off >= int64(len(m.data)) {
		return 0, io.EOF
	}
	n := copy(buf, m.data[off:])
	if n < len(buf) {
		return n, io.EOF
	}
	return n, nil
}

// ---- a small active fraction ----------------------------------------------

type vDocT struct {
	id   seq.ID
	toks []int // indexes into vTokVals
	pos  seq.DocPos
}

var vTokVals = []string{"a", "b", "c"}

// vIndexBulk2 is appendWorker's sequence for one decoded bulk.
func vIndexBulk2(f *Active, c *metaDataCollector, metas []MetaData, blockPos uint64) {
	blockIndex := f.DocBlocks.Append(blockPos)
	c.Init(blockIndex)
	for _, m := range metas {
		c.AppendMeta(m)
	}
	appended := f.DocsPositions.SetMultiple(c.IDs, c.Positions)
	if len(appended) != len(c.IDs) {
		c.Filter(appended)
	}
	lidsList := f.AppendIDs(c.IDs)
	places := c.PrepareTokenLIDsPlaces()
	f.TokenList.Append(c.TokensValues, c.FieldsLengths, places)
	groups := c.GroupLIDsByToken(lidsList)
	addLIDsToTokens(places, groups)
	f.UpdateStats(c.MinMID, c.MaxMID, c.DocsCounter, c.SizeCounter)
}

// vBuildActive ingests n documents with symbolic IDs (pairwise distinct) in bulks of `per`
// documents; each document carries an arbitrary subset of nt tokens of field "f".
var vConcrete bool

func vBuildActive(n, nt, per int) (*Active, []*vDocT) {
	f := &Active{
		Config:        &Config{SkipSortDocs: true},
		TokenList:     NewActiveTokenList(1),
		DocsPositions: NewSyncDocsPositions(),
		MIDs:          NewIDs(),
		RIDs:          NewIDs(),
		DocBlocks:     NewIDs(),
		info:          &Info{Path: "frac", From: ^seq.MID(0), To: 0, BinaryDataVer: BinaryDataV1},
	}
	f.MIDs.Append(systemMID)
	f.RIDs.Append(systemRID)
	c := newMetaDataCollector()
	var docs []*vDocT
	var metas []MetaData
	blockPos := uint64(0)
	for i := 0; i < n; i++ {
		var d *vDocT
		var mask int
		if vConcrete {
			// fixed data (descending IDs, token 0 on every document, the others on every second one): the
			// fraction is built concretely and only the query side (LID window, order, fetched IDs) is symbolic
			d = &vDocT{id: seq.ID{MID: seq.MID(60 - 2*i), RID: seq.RID(7 + i)}}
			mask = 1
			if i%2 == 0 {
				mask = 1<<nt - 1
			}
		} else {
			d = &vDocT{id: seq.ID{MID: seq.MID(rt.NondetU64()), RID: seq.RID(rt.NondetU64())}}
			rt.Assume(rt.And(d.id.MID >= 1, d.id.MID < 63)) // one-byte varint deltas: no case split on encoded length
			for _, o := range docs {
				rt.Assume(o.id != d.id)
			}
			mask = rt.Choose(1 << nt)
		}
		m := MetaData{ID: d.id, Size: 2, Tokens: []MetaToken{{Key: []byte(seq.TokenAll), Value: []byte{}}}}
		for t := 0; t < nt; t++ {
			if mask&(1<<t) != 0 {
				d.toks = append(d.toks, t)
				m.Tokens = append(m.Tokens, MetaToken{Key: []byte("f"), Value: []byte(vTokVals[t])})
			}
		}
		if vConcrete {
			// a third, short field: its token-table block is read after (and into the buffer of) field f's
			m.Tokens = append(m.Tokens, MetaToken{Key: []byte("g"), Value: []byte("x")})
		}
		docs = append(docs, d)
		metas = append(metas, m)
		if len(metas) == per || i == n-1 {
			vIndexBulk2(f, c, metas, blockPos)
			blockPos += 100
			metas = nil
		}
	}
	for _, d := range docs {
		d.pos = f.DocsPositions.Get(d.id)
	}
	return f, docs
}

func vIndexCache() *IndexCache {
	return &IndexCache{
		Registry:   cache.NewCache[[]byte](nil, nil),
		MIDs:       cache.NewCache[[]byte](nil, nil),
		RIDs:       cache.NewCache[[]byte](nil, nil),
		Params:     cache.NewCache[[]uint64](nil, nil),
		Tokens:     cache.NewCache[*token.CacheEntry](nil, nil),
		TokenTable: cache.NewCache[token.Table](nil, nil),
		LIDs:       cache.NewCache[*lids.Chunks](nil, nil),
	}
}

func vDrain(n node.Node, max int) []uint32 {
	var out []uint32
	for i := 0; i <= max; i++ {
		v, ok := n.Next()
		if !ok {
			return out
		}
		out = append(out, v)
	}
	rt.Assert(false, "posting iterator yields more LIDs than documents")
	return out
}

type vNoCount struct{}

func (vNoCount) AddLIDsCount(int) {}

// VerifSealRoundTrip: seal a small active fraction into the in-memory index file, load it back
// from the written bytes, and compare IDs, posting lists and document positions with what was
// ingested - with on-disk block sizes scaled down so that everything straddles block borders.
func VerifSealRoundTrip() {
	n := rt.Param("DOCS")
	nt := rt.Param("TOKENS")
	per := rt.Param("BULK")
	vConcrete = rt.Param("CONCRETE") == 1
	f, docs := vBuildActive(n, nt, per)
	rt.Reach("ingested")

	mem := &vMem{data: make([]byte, 16), pos: 16}
	disk.VerifReadAt = mem.readAt
	info := *f.info
	pre, err := writeSealedFraction(f, &info, mem, SealParams{})
	rt.Assert(err == nil, "sealing succeeds")
	if err != nil {
		return
	}
	rt.Reach("sealed")

	// load from the written bytes only
	ic := vIndexCache()
	rl := disk.NewReadLimiter(1, nil)
	s := &Sealed{info: &info, Config: &Config{}, indexCache: ic, loadMu: &sync.RWMutex{}, BaseFileName: "frac"}
	s.indexReader = disk.NewIndexReader(rl, nil, ic.Registry)
	(&Loader{}).Load(s)
	rt.Reach("loaded")

	// (f) tables read from the file = tables handed over by the sealer
	rt.Assert(s.idsTable.IDsTotal == pre.idsTable.IDsTotal, "ids total survives the file")
	rt.Assert(s.idsTable.DiskStartBlockIndex == pre.idsTable.DiskStartBlockIndex, "ids start block survives the file")
	rt.Assert(len(s.idsTable.MinBlockIDs) == len(pre.idsTable.MinBlockIDs), "number of id blocks survives the file")
	if len(s.idsTable.MinBlockIDs) == len(pre.idsTable.MinBlockIDs) {
		for i := range s.idsTable.MinBlockIDs {
			rt.Assert(s.idsTable.MinBlockIDs[i] == pre.idsTable.MinBlockIDs[i], "block min ids survive the file")
		}
	}
	rt.Assert(s.lidsTable.StartIndex == pre.lidsTable.StartIndex, "lids start block survives the file")
	rt.Assert(len(s.lidsTable.MaxTIDs) == len(pre.lidsTable.MaxTIDs), "number of lids blocks survives the file")
	if len(s.lidsTable.MaxTIDs) == len(pre.lidsTable.MaxTIDs) {
		for i := range s.lidsTable.MaxTIDs {
			rt.Assert(rt.And(s.lidsTable.MaxTIDs[i] == pre.lidsTable.MaxTIDs[i], s.lidsTable.MinTIDs[i] == pre.lidsTable.MinTIDs[i]), "lids block borders survive the file")
			rt.Assert(s.lidsTable.IsContinued[i] == pre.lidsTable.IsContinued[i], "continued flags survive the file")
		}
	}
	rt.Assert(len(s.BlocksOffsets) == len(pre.blocksOffsets), "doc block offsets survive the file")

	dp := s.createDataProvider(context.Background())
	ids := dp.getIDsIndex()

	// (c) IDs: n documents + the system slot, strictly descending, each ingested ID once
	rt.Assert(ids.Len() == n+1, "id table length")
	sealedLID := make([]uint32, n) // LID of docs[i] in the sealed fraction
	if ids.Len() == n+1 {
		for l := 1; l <= n; l++ {
			mid, rid := ids.GetMID(seq.LID(l)), ids.GetRID(seq.LID(l))
			if l > 1 {
				pm, pr := ids.GetMID(seq.LID(l-1)), ids.GetRID(seq.LID(l-1))
				rt.Assert(rt.Or(mid < pm, rt.And(mid == pm, rid < pr)), "sealed ids strictly descending")
			}
			found := false
			for i, d := range docs {
				if rt.And(d.id.MID == mid, d.id.RID == rid) {
					found = true
					sealedLID[i] = uint32(l)
				}
			}
			rt.Assert(found, "every sealed id is an ingested id")
		}
	}

	if vConcrete && rt.Param("SEARCH") == 1 && rt.Choose(2) == 1 {
		// instead of the window checks below: whole searches over the same sealed fraction
		vSealedSearch(s, docs, nt)
		rt.Reach("end")
		return
	}

	// (b) posting lists per token, both orders, any LID window
	ti := dp.getTokenIndex()
	minLID, maxLID := rt.NondetU32(), rt.NondetU32()
	rt.Assume(rt.And(minLID >= 1, maxLID <= uint32(n)))
	order := seq.DocsOrder(rt.Choose(2))
	used := 0
	for t := 0; t < nt; t++ {
		for _, d := range docs {
			has := false
			for _, x := range d.toks {
				if x == t {
					has = true
				}
			}
			if has {
				used++
				break
			}
		}
	}
	for t := 0; t < nt; t++ {
		// tid of token t through the real dictionary
		var tid uint32
		for cand := uint32(1); cand <= uint32(used)+1; cand++ { // TIDs 1..used+1: _all_ and the used tokens
			if string(ti.GetValByTID(cand)) == vTokVals[t] {
				tid = cand
			}
		}
		have := false
		for _, d := range docs {
			for _, x := range d.toks {
				if x == t {
					have = true
				}
			}
		}
		if !have {
			rt.Assert(tid == 0, "token without documents is not in the dictionary")
			continue
		}
		rt.Assert(tid != 0, "token value is readable from the sealed dictionary")
		if tid == 0 {
			continue
		}
		nodes := ti.GetLIDsFromTIDs([]uint32{tid}, vNoCount{}, minLID, maxLID, order)
		got := vDrain(nodes[0], n)
		// expected: sealed LIDs of the documents carrying token t, inside the window, in order
		var want []uint32
		for k := 1; k <= n; k++ {
			l := uint32(k)
			if order.IsReverse() {
				l = uint32(n + 1 - k)
			}
			for i, d := range docs {
				if sealedLID[i] != l {
					continue
				}
				for _, x := range d.toks {
					if x == t && minLID <= l && l <= maxLID {
						want = append(want, l)
					}
				}
			}
		}
		rt.Assert(len(got) == len(want), "posting list length (sealed = ingested)")
		if len(got) == len(want) {
			for i := range want {
				rt.Assert(got[i] == want[i], "posting list content and order (sealed = ingested)")
			}
		}
	}

	// (e) document positions through the sealed fetch index, incl. an unknown ID
	fi := dp.getFetchIndex()
	unknown := seq.ID{MID: seq.MID(rt.NondetU64()), RID: seq.RID(rt.NondetU64())}
	for _, d := range docs {
		rt.Assume(d.id != unknown)
	}
	req := []seq.ID{unknown}
	for _, d := range docs {
		req = append(req, d.id)
	}
	pos := fi.GetDocPos(req)
	rt.Assert(pos[0] == seq.DocPosNotFound, "unknown id is not found")
	for i, d := range docs {
		rt.Assert(pos[i+1] == d.pos, "document position (sealed = active)")
	}
	rt.Reach("end")
}

// vSealedSearch: whole searches through sealedDataProvider.Search over the sealed file, compared
// with a direct evaluation over the ingested documents; then a search that fails inside the
// fraction, after which data providers must still get unpack caches of their own.
func vSealedSearch(s *Sealed, docs []*vDocT, nt int) {
	type q struct {
		text string
		eval func(has func(int) bool) bool
	}
	qs := []q{
		{"f:a", func(h func(int) bool) bool { return h(0) }},
		{"not f:b", func(h func(int) bool) bool { return !h(1) }},
		{"f:a and f:b", func(h func(int) bool) bool { return h(0) && h(1) }},
	}
	qi := rt.Choose(len(qs))
	ast, err := parser.ParseSeqQL(qs[qi].text, nil)
	if err != nil {
		panic("query does not parse")
	}
	from, to := seq.MID(rt.NondetU64()), seq.MID(rt.NondetU64())
	limit := rt.NondetInt()
	rt.Assume(rt.And(0 <= limit, limit <= len(docs)+1))
	order := seq.DocsOrder(rt.Choose(2))
	dp := s.createDataProvider(context.Background())
	qpr, serr := dp.Search(processor.SearchParams{AST: ast.Root, From: from, To: to, Limit: limit, WithTotal: true, Order: order})
	dp.release()
	rt.Assert(serr == nil, "sealed search succeeds")
	if serr != nil {
		return
	}
	// documents are ingested in descending ID order: result order = ingestion order (or its reverse)
	var want []seq.ID
	n := len(docs)
	for k := 0; k < n; k++ {
		d := docs[k]
		if order.IsReverse() {
			d = docs[n-1-k]
		}
		has := func(t int) bool {
			for _, x := range d.toks {
				if x == t {
					return true
				}
			}
			return false
		}
		if qs[qi].eval(has) && rt.And(from <= d.id.MID, d.id.MID <= to) {
			want = append(want, d.id)
		}
	}
	total := len(want)
	if len(want) > limit {
		want = want[:limit]
	}
	rt.Assert(qpr.Total == uint64(total), "sealed search: total = number of matching documents in range")
	rt.Assert(len(qpr.IDs) == len(want), "sealed search: number of ids")
	if len(qpr.IDs) == len(want) {
		for i := range want {
			rt.Assert(qpr.IDs[i].ID == want[i], "sealed search: ids in the requested order")
		}
	}
	rt.Reach("sealed-search")

	// a search that fails inside the fraction (more group values than allowed)
	s.Config = &Config{Search: SearchConfig{AggLimits: AggLimits{MaxGroupTokens: 1}}}
	dp2 := s.createDataProvider(context.Background())
	star, _ := parser.ParseSeqQL("*", nil)
	_, ferr := dp2.Search(processor.SearchParams{AST: star.Root, From: 0, To: ^seq.MID(0), Order: order,
		AggQ: []processor.AggQuery{{Func: seq.AggFuncCount, GroupBy: &parser.Literal{Field: "f", Terms: []parser.Term{{Kind: parser.TermSymbol, Data: "*"}}}}}})
	rt.Assert(ferr != nil, "a search over more group values than allowed fails")
	dp2.release() // what the closure returned by Sealed.DataProvider does when the request ends
	a, b := s.createDataProvider(context.Background()), s.createDataProvider(context.Background())
	distinct := a.midCache != a.ridCache && b.midCache != b.ridCache && a.midCache != b.midCache && a.midCache != b.ridCache && a.ridCache != b.midCache && a.ridCache != b.ridCache
	rt.Assert(distinct, "after a failed search every data provider still gets unpack caches of its own")
	a.release()
	b.release()
	rt.Reach("failed-search")
}
