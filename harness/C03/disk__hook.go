package disk

import "os"

// VerifReadAt replaces (*os.File).ReadAt inside ReadLimiter.ReadAt: the harness serves reads
// from its in-memory file.
var VerifReadAt func(f *os.File, buf []byte, offset int64) (int, error)

// vKeep stands for zstd.CompressLevel: blocks are stored uncompressed.
func vKeep(_ func([]byte, []byte, int) []byte, data []byte) []byte { return data }
