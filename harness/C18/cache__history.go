package cache

import rt "github.com/ozontech/seq-db/verifrt"

type vLoad struct {
	val     uint32
	size    int
	outcome uint8 // 0 ok, 1 error, 2 panic
	called  bool
	during  func() // what happens while the loader runs (the cleaner's goroutine rotating generations)
}

type vErr struct{}

func (vErr) Error() string { return "loader failed" }

type vPanic struct{}

// vGet performs one lookup; returns (value, err, panicked).
func vGet(c *Cache[uint32], key uint32, withErr bool, ld *vLoad) (v uint32, err error, panicked bool) {
	defer func() {
		if r := recover(); r != nil {
			if _, ok := r.(vPanic); !ok {
				panic(r)
			}
			panicked = true
		}
	}()
	if withErr {
		v, err = c.GetWithError(key, func() (uint32, int, error) {
			ld.called = true
			ld.during()
			if ld.outcome == 2 {
				panic(vPanic{})
			}
			if ld.outcome == 1 {
				return 0, 0, vErr{}
			}
			return ld.val, ld.size, nil
		})
		return
	}
	v = c.Get(key, func() (uint32, int) {
		ld.called = true
		ld.during()
		if ld.outcome == 2 {
			panic(vPanic{})
		}
		return ld.val, ld.size
	})
	return
}

// VerifCacheHistory: an arbitrary history of operations over caches sharing a cleaner keeps
// values coherent, the accounted size equal to the live entries, every unreleased cache under
// the cleaner's management, and cleaning brings the size under the limit.
func VerifCacheHistory() {
	nc := rt.Param("CACHES")
	steps := rt.Param("STEPS")
	nk := rt.Param("KEYS")

	limit := uint64(rt.NondetU32())
	rt.Assume(limit <= 1<<20)
	cl := NewCleaner(limit, nil)
	caches := make([]*Cache[uint32], nc)
	released := make([]bool, nc)
	type mkey struct {
		c int
		k uint32
	}
	model := map[mkey]uint32{}
	for i := range caches {
		caches[i] = NewCache[uint32](cl, nil)
	}
	nops := nc*nk*2 + nc + 4
	for s := 0; s < steps; s++ {
		op := rt.Choose(nops)
		switch {
		case op < nc*nk*2: // lookup
			withErr := op%2 == 1
			ci := (op / 2) / nk
			key := uint32((op / 2) % nk)
			if released[ci] {
				rt.Assume(false) // a released cache is not used any more (its payload map is nil)
			}
			ld := &vLoad{val: rt.NondetU32(), size: int(rt.NondetU16()), outcome: rt.NondetU8()}
			ld.during = func() {}
			if rt.Param("ROTATE_IN_LOAD") == 1 && rt.Choose(2) == 1 {
				ld.during = func() { cl.Rotate(); rt.Reach("rotate-in-load") } // a load is slow: the cleaner's timer fires meanwhile
			}
			if rt.Param("ROTATE_IN_LOAD") == 2 { // any maintenance step of the cleaner's goroutine while the loader runs
				switch rt.Choose(4) {
				case 1:
					ld.during = func() { cl.Rotate(); rt.Reach("rotate-in-load") }
				case 2:
					ld.during = func() { cl.Rotate(); var st CleanStat; cl.Cleanup(&st) }
				case 3:
					ld.during = func() { cl.Rotate(); cl.CleanEmptyGenerations() }
				}
			}
			if withErr {
				rt.Assume(ld.outcome <= 2)
			} else {
				rt.Assume(rt.Or(ld.outcome == 0, ld.outcome == 2))
			}
			v, err, panicked := vGet(caches[ci], key, withErr, ld)
			old, had := model[mkey{ci, key}]
			if ld.called {
				switch ld.outcome {
				case 0:
					rt.Assert(rt.And(!panicked, err == nil), "ok load reaches caller without error")
					rt.Assert(v == ld.val, "value returned = loader's value")
					model[mkey{ci, key}] = ld.val
				case 1:
					rt.Assert(rt.And(!panicked, err != nil), "loader error reaches caller")
					delete(model, mkey{ci, key})
				default:
					rt.Assert(panicked, "loader panic reaches caller")
					delete(model, mkey{ci, key})
				}
			} else {
				rt.Assert(had, "hit only for a key loaded before")
				rt.Assert(rt.And(!panicked, err == nil), "hit without error")
				if had {
					rt.Assert(v == old, "hit returns the value loaded for this key")
				}
			}
			rt.Reach("lookup")
		case op < nc*nk*2+nc: // release cache
			ci := op - nc*nk*2
			if released[ci] {
				rt.Assume(false)
			}
			caches[ci].Release()
			released[ci] = true
			for k := 0; k < nk; k++ {
				delete(model, mkey{ci, uint32(k)})
			}
		case op == nc*nk*2+nc:
			cl.Rotate()
		case op == nc*nk*2+nc+1:
			var st CleanStat
			if cl.Cleanup(&st) {
				rt.Assert(cl.getSize() <= limit, "cleanup brings accounted size under the limit")
				rt.Reach("cleaned")
			}
			// entries of stale generations are gone: forget them in the model
			for i, c := range caches {
				if released[i] {
					continue
				}
				for k := 0; k < nk; k++ {
					if _, ok := c.payload[uint32(k)]; !ok {
						delete(model, mkey{i, uint32(k)})
					}
				}
			}
		case op == nc*nk*2+nc+2:
			cl.ReleaseBuckets()
			// the cleaner manages exactly the unreleased caches
			live := 0
			for i, c := range caches {
				found := 0
				for _, b := range cl.buckets {
					if b == bucket(c) {
						found++
					}
				}
				if released[i] {
					rt.Assert(found == 0, "released cache is dropped from the cleaner")
				} else {
					rt.Assert(found == 1, "live cache stays under the cleaner's management")
					live++
				}
			}
			rt.Assert(len(cl.buckets) == live, "bucket list = unreleased caches")
			rt.Reach("release-buckets")
		default:
			cl.CleanEmptyGenerations()
		}
		// accounting invariant
		var sum uint64
		for i, c := range caches {
			if released[i] {
				continue
			}
			for _, e := range c.payload {
				sum += e.size
			}
		}
		rt.Assert(cl.getSize() == sum, "accounted size = sum of live entries")
		// the same per generation: every generation the cleaner sums holds exactly the bytes of the
		// live entries that point at it (this is what makes dropping a stale generation release
		// exactly its entries)
		for _, g := range cl.generations {
			var gs uint64
			for i, c := range caches {
				if released[i] {
					continue
				}
				for _, e := range c.payload {
					if e.gen == g {
						gs += e.size
					}
				}
			}
			rt.Assert(g.size.Load() == gs, "size accounted in a generation = sum of the live entries of that generation")
		}
		// the generation new entries go to is one the cleaner sums: the cleaner's own current one and
		// the one every unreleased cache points at
		cur := false
		for _, g := range cl.generations {
			if g == cl.lastGen {
				cur = true
			}
		}
		rt.Assert(cur, "the cleaner's current generation is among the generations it sums")
		for i, c := range caches {
			if !released[i] {
				rt.Assert(c.currentGeneration == cl.lastGen, "every unreleased cache adds to the cleaner's current generation")
			}
		}
		for i, c := range caches {
			if released[i] {
				continue
			}
			for _, e := range c.payload {
				known := false
				for _, g := range cl.generations {
					if e.gen == g {
						known = true
					}
				}
				rt.Assert(known, "every live entry belongs to a generation the cleaner sums")
			}
		}
	}
	rt.Reach("end")
}
