package processor

import (
	"context"

	"github.com/ozontech/seq-db/frac/lids"
	"github.com/ozontech/seq-db/metric/stopwatch"
	"github.com/ozontech/seq-db/node"
	"github.com/ozontech/seq-db/parser"
	"github.com/ozontech/seq-db/seq"
	rt "github.com/ozontech/seq-db/verifrt"
)

// vIndex is the harness's searchIndex: n documents at LIDs 1..n (IDs strictly descending by LID,
// as every fraction's ID table is), t tokens with posting lists of symbolic LIDs.
type vIndex struct {
	n     int
	mids  []uint64
	rids  []uint64
	lists [][]uint32
}

func (x *vIndex) Len() int                   { return x.n + 1 }
func (x *vIndex) GetMID(l seq.LID) seq.MID   { return seq.MID(x.mids[l]) }
func (x *vIndex) GetRID(l seq.LID) seq.RID   { return seq.RID(x.rids[l]) }
func (x *vIndex) GetValByTID(t uint32) []byte { return []byte{'t', byte('0' + t)} }
func (x *vIndex) LessOrEqual(l seq.LID, id seq.ID) bool {
	m, r := x.mids[l], x.rids[l]
	return rt.Or(m < uint64(id.MID), rt.And(m == uint64(id.MID), r <= uint64(id.RID)))
}

// leaf "tK" selects token K; leaf "m" selects every token (stands for a wildcard/range leaf that
// expands to an OR tree over several posting lists).
func (x *vIndex) GetTIDsByTokenExpr(tok parser.Token) ([]uint32, error) {
	lit := tok.(*parser.Literal)
	if lit.Field == "m" {
		all := make([]uint32, len(x.lists))
		for i := range all {
			all[i] = uint32(i)
		}
		return all, nil
	}
	return []uint32{uint32(lit.Field[1] - '0')}, nil
}

func (x *vIndex) GetLIDsFromTIDs(tids []uint32, _ lids.Counter, minLID, maxLID uint32, order seq.DocsOrder) []node.Node {
	out := make([]node.Node, 0, len(tids))
	for _, tid := range tids {
		var f []uint32
		for _, v := range x.lists[tid] {
			if minLID <= v && v <= maxLID {
				f = append(f, v)
			}
		}
		out = append(out, node.NewStatic(f, order.IsReverse()))
	}
	return out
}

func vHas(a []uint32, v uint32) bool {
	r := false
	for _, x := range a {
		r = rt.Or(r, x == v)
	}
	return r
}

// vEval: truth of the AST for document lid (reference semantics).
func (x *vIndex) vEval(a *parser.ASTNode, lid uint32) bool {
	switch t := a.Value.(type) {
	case *parser.Literal:
		if t.Field == "m" {
			r := false
			for _, l := range x.lists {
				r = rt.Or(r, vHas(l, lid))
			}
			return r
		}
		return vHas(x.lists[t.Field[1]-'0'], lid)
	case *parser.Logical:
		switch t.Operator {
		case parser.LogicalAnd:
			return rt.And(x.vEval(a.Children[0], lid), x.vEval(a.Children[1], lid))
		case parser.LogicalOr:
			return rt.Or(x.vEval(a.Children[0], lid), x.vEval(a.Children[1], lid))
		case parser.LogicalNAnd: // children[0] is the negated one
			return rt.And(rt.Not(x.vEval(a.Children[0], lid)), x.vEval(a.Children[1], lid))
		case parser.LogicalNot:
			return rt.Not(x.vEval(a.Children[0], lid))
		}
	}
	panic("bad ast")
}

func vLeaf(name string) *parser.ASTNode {
	return &parser.ASTNode{Value: &parser.Literal{Field: name}}
}

// vCatalog enumerates all ASTs with at most ops operators over the leaves.
func vCatalog(ops int, leaves []string) [][]func() *parser.ASTNode {
	// cat[k] = constructors of trees with exactly k operators
	cat := make([][]func() *parser.ASTNode, ops+1)
	for _, l := range leaves {
		l := l
		cat[0] = append(cat[0], func() *parser.ASTNode { return vLeaf(l) })
	}
	for k := 1; k <= ops; k++ {
		for _, c := range cat[k-1] {
			c := c
			cat[k] = append(cat[k], func() *parser.ASTNode {
				return &parser.ASTNode{Value: &parser.Logical{Operator: parser.LogicalNot}, Children: []*parser.ASTNode{c()}}
			})
		}
		for i := 0; i <= k-1; i++ {
			for _, l := range cat[i] {
				for _, r := range cat[k-1-i] {
					for _, op := range []int{0, 1, 2} {
						l, r, op := l, r, op
						cat[k] = append(cat[k], func() *parser.ASTNode {
							var o *parser.Logical
							switch op {
							case 0:
								o = &parser.Logical{Operator: parser.LogicalAnd}
							case 1:
								o = &parser.Logical{Operator: parser.LogicalOr}
							default:
								o = &parser.Logical{Operator: parser.LogicalNAnd}
							}
							return &parser.ASTNode{Value: o, Children: []*parser.ASTNode{l(), r()}}
						})
					}
				}
			}
		}
	}
	return cat
}

// VerifIndexSearch: IndexSearch returns exactly the documents that satisfy the AST inside
// [from,to], strictly ordered, cut to limit, with the right total.
func VerifIndexSearch() {
	n := rt.Param("N")
	t := rt.Param("T")
	ops := rt.Param("OPS")
	leaves := []string{"m"}
	for i := 0; i < t; i++ {
		leaves = append(leaves, string([]byte{'t', byte('0' + i)}))
	}
	var flat []func() *parser.ASTNode
	for _, c := range vCatalog(ops, leaves) {
		flat = append(flat, c...)
	}
	ast := flat[rt.Choose(len(flat))]()

	x := &vIndex{n: n, mids: make([]uint64, n+1), rids: make([]uint64, n+1)}
	for i := 0; i < t; i++ {
		k := rt.Choose(n + 1)
		l := make([]uint32, k)
		for j := range l {
			l[j] = rt.NondetU32()
			rt.Assume(rt.And(1 <= l[j], l[j] <= uint32(n)))
			if j > 0 {
				rt.Assume(l[j-1] < l[j])
			}
		}
		x.lists = append(x.lists, l)
	}
	for i := 1; i <= n; i++ {
		x.mids[i], x.rids[i] = rt.NondetU64(), rt.NondetU64()
		rt.Assume(x.mids[i] >= 1) // timestamps after the epoch; ID (0,0) is the reserved slot of LID 0
		if i > 1 { // strictly descending IDs
			rt.Assume(rt.Or(x.mids[i] < x.mids[i-1], rt.And(x.mids[i] == x.mids[i-1], x.rids[i] < x.rids[i-1])))
		}
	}
	from, to := rt.NondetU64(), rt.NondetU64()
	limit := rt.NondetInt()
	rt.Assume(rt.And(0 <= limit, limit <= n+1))
	order := seq.DocsOrder(rt.NondetU8())
	rt.Assume(order <= 1)
	withTotal := rt.NondetBool()

	hist := uint64(0)
	if rt.Param("HIST") == 1 {
		hist = []uint64{0, 16, 1 << 20}[rt.Choose(3)]
	}
	params := SearchParams{AST: ast, From: seq.MID(from), To: seq.MID(to), Limit: limit, WithTotal: withTotal, Order: order, HistInterval: hist}
	qpr, err := IndexSearch(context.Background(), params, x, AggLimits{}, stopwatch.New())
	rt.Assert(err == nil, "no error")
	rt.Reach("searched")

	// reference: documents in result order
	var want []uint32
	for k := 1; k <= n; k++ {
		lid := uint32(k)
		if order.IsReverse() {
			lid = uint32(n + 1 - k)
		}
		in := rt.And(from <= x.mids[lid], x.mids[lid] <= to)
		if rt.And(in, x.vEval(ast, lid)) {
			want = append(want, lid)
		}
	}
	total := len(want)
	if hist > 0 {
		// every matching document in range is counted once, in the bucket of its timestamp - also beyond the limit
		rt.Assert(qpr.Histogram != nil, "histogram requested: returned")
		for _, li := range want {
			bi := x.mids[li] - x.mids[li]%hist
			cnt := uint64(0)
			for _, lj := range want {
				if x.mids[lj]-x.mids[lj]%hist == bi {
					cnt++
				}
			}
			rt.Assert(qpr.Histogram[seq.MID(bi)] == cnt, "histogram bucket = number of matching documents of that interval")
		}
		sum := uint64(0)
		for _, v := range qpr.Histogram {
			sum += v
		}
		rt.Assert(sum == uint64(total), "histogram counts nothing but the matching documents")
		rt.Reach("histogram")
	} else {
		rt.Assert(len(qpr.Histogram) == 0, "no histogram unless requested")
	}
	if len(want) > limit {
		want = want[:limit]
	}
	rt.Assert(len(qpr.IDs) == len(want), "number of ids")
	if len(qpr.IDs) == len(want) {
		for i, w := range want {
			rt.Assert(rt.And(uint64(qpr.IDs[i].ID.MID) == x.mids[w], uint64(qpr.IDs[i].ID.RID) == x.rids[w]), "i-th id")
		}
	}
	if withTotal {
		rt.Assert(qpr.Total == uint64(total), "total")
	} else {
		rt.Assert(qpr.Total == 0, "total not requested")
	}
	rt.Reach("end")
}
