package frac

import (
	"context"
	"runtime"
	"sync"
	"time"

	"github.com/ozontech/seq-db/consts"
	"github.com/ozontech/seq-db/frac/processor"
	"github.com/ozontech/seq-db/parser"
	"github.com/ozontech/seq-db/seq"
	rt "github.com/ozontech/seq-db/verifrt"
)

var vASTokVals = []string{"a", "b"}

// vASIndexBulk is appendWorker's sequence for one decoded bulk.
func vASIndexBulk(f *Active, c *metaDataCollector, metas []MetaData, blockPos uint64) {
	blockIndex := f.DocBlocks.Append(blockPos)
	c.Init(blockIndex)
	for _, m := range metas {
		c.AppendMeta(m)
	}
	appended := f.DocsPositions.SetMultiple(c.IDs, c.Positions)
	if len(appended) != len(c.IDs) {
		c.Filter(appended)
	}
	lidsList := f.AppendIDs(c.IDs)
	places := c.PrepareTokenLIDsPlaces()
	f.TokenList.Append(c.TokensValues, c.FieldsLengths, places)
	groups := c.GroupLIDsByToken(lidsList)
	addLIDsToTokens(places, groups)
	f.UpdateStats(c.MinMID, c.MaxMID, c.DocsCounter, c.SizeCounter)
}

type vASQuery struct {
	q    string
	eval func(has func(int) bool) bool
}

var vASQueries = []vASQuery{
	{"f:a", func(h func(int) bool) bool { return h(0) }},
	{"f:a and f:b", func(h func(int) bool) bool { return h(0) && h(1) }},
	{"f:a or f:b", func(h func(int) bool) bool { return h(0) || h(1) }},
	{"f:a and not f:b", func(h func(int) bool) bool { return h(0) && !h(1) }},
	{"not f:b", func(h func(int) bool) bool { return !h(1) }},
	{"not f:a or not f:b", func(h func(int) bool) bool { return !h(0) || !h(1) }},
	{"not f:a and not f:b", func(h func(int) bool) bool { return !h(0) && !h(1) }},
	{"f:a or not f:b", func(h func(int) bool) bool { return h(0) || !h(1) }},
	{"not (f:a or f:b) or not f:a", func(h func(int) bool) bool { return !(h(0) || h(1)) || !h(0) }},
}

func vASSearch(f *Active, q string, p processor.SearchParams) (*seq.QPR, error) {
	ast, err := parser.ParseSeqQL(q, nil)
	if err != nil {
		panic("query does not parse: " + q)
	}
	p.AST = ast.Root
	dp := f.createDataProvider(context.Background())
	defer dp.release()
	return dp.Search(p)
}

// VerifActiveSearch: a search over the active fraction - whose posting lists are merged lazily,
// bulk after bulk, by the searches themselves - returns exactly the matching documents inside
// [from,to], ordered by ID, cut to limit, with the right total; whatever the arrival order of
// the documents, their split into bulks and the searches that ran in between.
func VerifActiveSearch() {
	n, per := rt.Param("DOCS"), rt.Param("BULK")
	nt := len(vASTokVals)
	// IDs in result order: strictly descending
	sorted := make([]seq.ID, n)
	for i := range sorted {
		sorted[i] = seq.ID{MID: seq.MID(rt.NondetU64()), RID: seq.RID(rt.NondetU64())}
		rt.Assume(rt.And(sorted[i].MID >= 1, sorted[i].MID < 1<<40))
		if i > 0 {
			rt.Assume(seq.Less(sorted[i], sorted[i-1]))
		}
	}
	// arrival order: any permutation
	arrival := make([]int, 0, n)
	left := make([]int, n)
	for i := range left {
		left[i] = i
	}
	for len(left) > 0 {
		k := rt.Choose(len(left))
		arrival = append(arrival, left[k])
		left = append(left[:k], left[k+1:]...)
	}
	toks := make([]int, n) // token mask per document (index in sorted)
	f := &Active{
		Config:        &Config{SkipSortDocs: true},
		TokenList:     NewActiveTokenList(1),
		DocsPositions: NewSyncDocsPositions(),
		MIDs:          NewIDs(),
		RIDs:          NewIDs(),
		DocBlocks:     NewIDs(),
		info:          &Info{Path: "frac", From: ^seq.MID(0), To: 0, BinaryDataVer: BinaryDataV1},
	}
	f.MIDs.Append(systemMID)
	f.RIDs.Append(systemRID)
	c := newMetaDataCollector()
	var metas []MetaData
	blockPos := uint64(0)
	for i, di := range arrival {
		m := MetaData{ID: sorted[di], Size: 2, Tokens: []MetaToken{{Key: []byte(seq.TokenAll), Value: []byte{}}}}
		toks[di] = rt.Choose(1 << nt)
		for t := 0; t < nt; t++ {
			if toks[di]&(1<<t) != 0 {
				m.Tokens = append(m.Tokens, MetaToken{Key: []byte("f"), Value: []byte(vASTokVals[t])})
			}
		}
		metas = append(metas, m)
		if len(metas) == per || i == n-1 {
			vASIndexBulk(f, c, metas, blockPos)
			blockPos += 100
			metas = nil
			if i != n-1 && rt.Choose(2) == 1 {
				// a search between two bulks: merges the queued LIDs of the tokens it touches (and of _all_)
				_, err := vASSearch(f, "f:a", processor.SearchParams{From: 0, To: ^seq.MID(0), Limit: 1})
				rt.Assert(err == nil, "intermediate search succeeds")
				rt.Reach("search-between-bulks")
			}
		}
	}
	rt.Reach("built")

	nq := len(vASQueries)
	if k := rt.Param("QSET"); k > 0 && k < nq {
		nq = k // a prefix of the query catalogue (bounds the thorough tier)
	}
	qi := rt.Choose(nq)
	from, to := seq.MID(rt.NondetU64()), seq.MID(rt.NondetU64())
	limit := rt.NondetInt()
	rt.Assume(rt.And(0 <= limit, limit <= n+1))
	order := seq.DocsOrder(rt.Choose(2))
	p := processor.SearchParams{From: from, To: to, Limit: limit, WithTotal: true, Order: order}
	qpr, err := vASSearch(f, vASQueries[qi].q, p)
	rt.Assert(err == nil, "search succeeds")
	if err != nil {
		return
	}
	rt.Reach("searched")

	var want []seq.ID
	for k := 0; k < n; k++ {
		i := k
		if order.IsReverse() {
			i = n - 1 - k
		}
		mask := toks[i]
		if !vASQueries[qi].eval(func(t int) bool { return mask&(1<<t) != 0 }) {
			continue
		}
		if rt.And(from <= sorted[i].MID, sorted[i].MID <= to) {
			want = append(want, sorted[i])
		}
	}
	total := len(want)
	if len(want) > limit {
		want = want[:limit]
	}
	rt.Assert(qpr.Total == uint64(total), "total = number of matching documents in range")
	rt.Assert(len(qpr.IDs) == len(want), "number of ids = min(limit, matches)")
	if len(qpr.IDs) == len(want) {
		for i := range want {
			rt.Assert(qpr.IDs[i].ID == want[i], "ids are the matching documents in the requested order")
		}
	}
	rt.Reach("end")
}

// VerifActiveAgg: a count-by-group aggregation over the real active fraction (activeTokenIndex,
// inverser, sourced OR tree over one posting list per group token) equals the count computed from
// the documents in [from,to], also when the range leaves some group token without any document.
func VerifActiveAgg() {
	n, per := rt.Param("DOCS"), rt.Param("BULK")
	groups := []string{"a", "b", "c"}
	f := &Active{
		Config:        &Config{SkipSortDocs: true},
		TokenList:     NewActiveTokenList(1),
		DocsPositions: NewSyncDocsPositions(),
		MIDs:          NewIDs(),
		RIDs:          NewIDs(),
		DocBlocks:     NewIDs(),
		info:          &Info{Path: "frac", From: ^seq.MID(0), To: 0, BinaryDataVer: BinaryDataV1},
	}
	f.MIDs.Append(systemMID)
	f.RIDs.Append(systemRID)
	c := newMetaDataCollector()
	ids := make([]seq.ID, n)
	grp := make([]int, n) // group of the document, len(groups) = the document has no group token
	var metas []MetaData
	blockPos := uint64(0)
	for i := 0; i < n; i++ {
		ids[i] = seq.ID{MID: seq.MID(rt.NondetU64()), RID: seq.RID(rt.NondetU64())}
		rt.Assume(rt.And(ids[i].MID >= 1, ids[i].MID < 1<<40))
		for j := 0; j < i; j++ {
			rt.Assume(ids[j] != ids[i])
		}
		grp[i] = rt.Choose(len(groups) + 1)
		m := MetaData{ID: ids[i], Size: 2, Tokens: []MetaToken{{Key: []byte(seq.TokenAll), Value: []byte{}}}}
		if grp[i] < len(groups) {
			m.Tokens = append(m.Tokens, MetaToken{Key: []byte("f"), Value: []byte(groups[grp[i]])})
		}
		metas = append(metas, m)
		if len(metas) == per || i == n-1 {
			vASIndexBulk(f, c, metas, blockPos)
			blockPos += 100
			metas = nil
		}
	}
	rt.Reach("built")
	from, to := seq.MID(rt.NondetU64()), seq.MID(rt.NondetU64())
	order := seq.DocsOrder(rt.Choose(2))
	p := processor.SearchParams{From: from, To: to, Limit: 0, WithTotal: true, Order: order,
		AggQ: []processor.AggQuery{{Func: seq.AggFuncCount, GroupBy: &parser.Literal{Field: "f", Terms: []parser.Term{{Kind: parser.TermSymbol, Data: "*"}}}}}}
	qpr, err := vASSearch(f, "*", p)
	rt.Assert(err == nil, "search succeeds")
	if err != nil {
		return
	}
	rt.Reach("searched")
	rt.Assert(len(qpr.Aggs) == 1, "one aggregation result")
	if len(qpr.Aggs) != 1 {
		return
	}
	agg := qpr.Aggs[0]
	want := make([]int64, len(groups)+1)
	for i := range ids {
		if rt.And(from <= ids[i].MID, ids[i].MID <= to) {
			want[grp[i]]++
		}
	}
	bins := 0
	for g, name := range groups {
		got := agg.SamplesByBin[seq.AggBin{Token: name, MID: consts.DummyMID}]
		if want[g] == 0 {
			rt.Assert(got == nil || got.Total == 0, "no bucket for a group without documents in range")
			continue
		}
		bins++
		rt.Assert(got != nil, "a group with documents in range has a bucket under its own token")
		if got != nil {
			rt.Assert(got.Total == want[g], "count of the group = number of its documents in range")
		}
	}
	rt.Assert(agg.NotExists == want[len(groups)], "documents without the field are counted as not existing")
	rt.Reach("end")
}

// VerifConcurrentGetLIDs: two searches merge the same token's queued posting list at the same
// time (a context switch is explored before every lock operation): both see every indexed document.
func VerifConcurrentGetLIDs() {
	for r := 0; r < rt.Repeat(); r++ {
		vConcurrentGetLIDs()
	}
}

// vLetRun lets the goroutines started so far run until they block.
func vLetRun() {
	if rt.Symbolic() {
		runtime.Gosched()
	} else {
		time.Sleep(20 * time.Millisecond)
	}
}

func vConcurrentGetLIDs() {
	f := &Active{
		Config:        &Config{SkipSortDocs: true},
		TokenList:     NewActiveTokenList(1),
		DocsPositions: NewSyncDocsPositions(),
		MIDs:          NewIDs(),
		RIDs:          NewIDs(),
		DocBlocks:     NewIDs(),
		info:          &Info{Path: "frac", From: ^seq.MID(0), To: 0, BinaryDataVer: BinaryDataV1},
	}
	f.MIDs.Append(systemMID)
	f.RIDs.Append(systemRID)
	c := newMetaDataCollector()
	ids := []seq.ID{{MID: 30, RID: 1}, {MID: 20, RID: 2}}
	var metas []MetaData
	for _, id := range ids {
		metas = append(metas, MetaData{ID: id, Size: 2, Tokens: []MetaToken{{Key: []byte(seq.TokenAll), Value: []byte{}}}})
	}
	vASIndexBulk(f, c, metas, 0)
	all := f.TokenList.GetAllTokenLIDs()
	var wg sync.WaitGroup
	res := make([]int, 2)
	// the next bulk is being appended: AppendIDs holds the id locks for a while, so a search that needs
	// the ids waits in the middle of its merge - the window in which a second search arrives
	f.MIDs.mu.Lock()
	for g := 0; g < 2; g++ {
		wg.Add(1)
		go func() {
			defer wg.Done()
			res[g] = len(all.GetLIDs(f.MIDs, f.RIDs))
		}()
		vLetRun()
	}
	f.MIDs.mu.Unlock()
	wg.Wait()
	for g := 0; g < 2; g++ {
		rt.Assert(res[g] == len(ids), "a search that runs while another one merges the posting list still sees every indexed document")
	}
	rt.Reach("end")
}
